#!/usr/bin/env python3
"""python3-vt validate.py : validates MANIFEST.json and all evidence files."""
import json, glob, sys, jsonschema
ok = True
jsonschema.validate(json.load(open('MANIFEST.json')), json.load(open('/root/.vp/MANIFEST.schema.json')))
es = json.load(open('/root/.vp/EVIDENCE.schema.json'))
for f in sorted(glob.glob('evidence/*.json')):
    try:
        jsonschema.validate(json.load(open(f)), es)
    except Exception as e:
        ok = False; print("INVALID", f, str(e)[:300])
print("valid" if ok else "INVALID")
sys.exit(0 if ok else 1)
