#!/usr/bin/env python3
"""Branch/line reach of the generators inside /repo/pyspike (pure-Python files).
Runs a sample of every property's generated phases in ONE process under
coverage.py and prints the lines of pyspike/*.py never executed.
usage: /venv/bin/python tools/reach.py [C01 C02 ...] [--n 300]"""
import importlib, json, os, sys, time
sys.path.insert(0, os.path.dirname(os.path.dirname(os.path.abspath(__file__))))
import coverage
from pbt import env

def main():
    args = [a for a in sys.argv[1:] if a.startswith("C")]
    n = 300
    if "--n" in sys.argv:
        n = int(sys.argv[sys.argv.index("--n") + 1])
    pids = args or ["C%02d" % i for i in range(1, 21)]
    cov = coverage.Coverage(branch=True, include=[os.path.join(env.REPO, "pyspike", "*")],
                            data_file=None)
    shim = env.setup()
    import hypothesis
    from hypothesis import given, settings, HealthCheck, Phase
    from hypothesis.stateful import run_state_machine_as_test
    from pbt import runner
    cov.start()
    # re-import the package modules under coverage so that def lines count
    for pid in pids:
        mod = importlib.import_module("pbt.props." + pid.lower())
        ctx = runner.Ctx(shim)
        stats = runner.Stats()
        for ph in mod.PHASES:
            t0 = time.time()
            if ph.kind == "hyp":
                @hypothesis.seed(7)
                @settings(max_examples=n, database=None, deadline=None,
                          phases=[Phase.generate],
                          suppress_health_check=list(HealthCheck))
                @given(ph.strategy("quick"))
                def t(case):
                    try:
                        runner._run_one(mod, ctx, stats, case, ph.name)
                    except runner.Violation:
                        pass
                t()
            elif ph.kind == "machine":
                m = ph.machine(ctx, "quick", stats, mod, time.time() + 600)
                st = settings(max_examples=max(20, n // 10), database=None, deadline=None,
                              stateful_step_count=20, phases=[Phase.generate],
                              suppress_health_check=list(HealthCheck))
                try:
                    run_state_machine_as_test(hypothesis.seed(7)(m), settings=st)
                except runner.Violation:
                    pass
            elif ph.kind == "enum":
                k = 0
                for case in ph.cases("quick", 0, 64):
                    try:
                        runner._run_one(mod, ctx, stats, case, ph.name, True)
                    except runner.Violation:
                        pass
                    k += 1
                    if k >= n:
                        break
            if "--json" not in sys.argv:
                print("%s %-16s %5.1fs" % (pid, ph.name, time.time() - t0), flush=True)
    cov.stop()
    out = {}
    for f in sorted(cov.get_data().measured_files()):
        _, stmts, excl, missing, _ = cov.analysis2(f)
        src = open(f).read().split("\n")
        # module-level statements ran at import time, before measuring started
        body_missing = []
        for ln in missing:
            text = src[ln - 1]
            if text[:1] not in (" ", "\t"):
                continue
            if text.strip().startswith(("def ", "class ", "@", "import ", "from ")):
                continue
            body_missing.append(ln)
        rel = os.path.relpath(f, env.REPO)
        out[rel] = dict(statements=len(stmts), unreached_lines_in_function_bodies=body_missing,
                        unreached_source=[src[ln - 1].strip()[:90] for ln in body_missing][:40])
        if "--json" not in sys.argv:
            print("%-50s %4d stmts  unreached body lines: %s" % (rel, len(stmts), body_missing))
    if "--json" in sys.argv:
        print("REACH-JSON " + json.dumps(out))
    else:
        json.dump(out, open(os.path.join(env.VERIF_DIR, "tools", "reach.json"), "w"), indent=1)

if __name__ == "__main__":
    main()
