"""Generic driver: corpus replay, exhaustive small-scope enumeration, Hypothesis
shards (stateless and stateful), root-cause rounds, evidence, replay files,
known findings.  A property module (pbt/props/cNN.py) supplies

    PID, TITLE, RULE, ASSUMPTIONS
    PHASES  = [HypPhase(...), EnumPhase(...), MachinePhase(...)]
    run_case(case, ctx)          raises Violation through ctx.fail / ctx.call
    classify(case) -> [labels]   (class histogram in the evidence)
    nontrivial(case) -> bool     (the rule in RULE)
    CLASSIFIERS = {name: predicate(case)}   for known findings (optional)
"""
import argparse
import collections
import hashlib
import importlib
import json
import multiprocessing
import os
import sys
import time
import traceback

from . import env

NCPU = 16
MAX_ROUNDS = 5
SAMPLES_KEPT = 6


# ----------------------------------------------------------------------------
# violations
# ----------------------------------------------------------------------------
class Violation(Exception):
    def __init__(self, label, detail=""):
        Exception.__init__(self, "%s: %s" % (label, detail))
        self.label = label
        self.detail = detail
        self.case = None


class CaseTimeout(BaseException):
    """a single call into the library did not return within CALL_LIMIT_S seconds
    (BaseException: no `except Exception` in the library or the harness swallows it).
    Normal calls take milliseconds.  A wall-clock limit is never a verdict: the case
    is saved, counted as inconclusive, reported on an INCONCLUSIVE line, and the run
    goes on - the point is only that one non-terminating call cannot hang a check."""


CALL_LIMIT_S = int(os.environ.get("VERIF_CALL_LIMIT_S", "120"))
MAX_TIMEOUTS_PER_WORKER = 2      # afterwards the worker skips its remaining cases


def _on_alarm(signum, frame):
    raise CaseTimeout()


class watchdog(object):
    """with watchdog(): <one call into the library>"""

    def __enter__(self):
        import signal
        import threading
        self.on = threading.current_thread() is threading.main_thread() and CALL_LIMIT_S > 0
        if self.on:
            signal.signal(signal.SIGALRM, _on_alarm)
            signal.alarm(CALL_LIMIT_S)

    def __exit__(self, *exc):
        if self.on:
            import signal
            signal.alarm(0)
        return False


def note_timeout(ctx, stats):
    """bookkeeping for a CaseTimeout: save the case, count it"""
    stats.budget_skipped += 1
    ctx.timeouts = getattr(ctx, "timeouts", 0) + 1
    ctx.notes["inconclusive:call_did_not_return_within_%ds" % CALL_LIMIT_S] += 1
    try:
        pid = getattr(ctx, "pid", None) or "unknown"
        d = os.path.join(env.VERIF_DIR, "replays", pid)
        os.makedirs(d, exist_ok=True)
        body = canon(ctx.case)
        path = os.path.join(d, "timeout-%s.json" % hashlib.sha256(body.encode()).hexdigest()[:8])
        if len([f for f in os.listdir(d) if f.startswith("timeout-")]) < 5:
            with open(path, "w") as f:
                json.dump(dict(property=pid, label="inconclusive_timeout",
                               detail="a call did not return within %d s" % CALL_LIMIT_S,
                               case=json.loads(body)), f, indent=1)
        ctx.timeout_files.add(os.path.relpath(path, env.VERIF_DIR))
    except Exception:
        pass


class SkipCase(Exception):
    """the rest of this case is not judged (label excluded in a later round or
    explained by an open known finding)"""


_VCLS = {}


def violation_class(label):
    # one exception class per label: Hypothesis keys distinct failures on the
    # exception type, so shrinking cannot slip from one assertion to another
    c = _VCLS.get(label)
    if c is None:
        c = type("Violation_" + "".join(ch if ch.isalnum() else "_" for ch in label),
                 (Violation,), {})
        _VCLS[label] = c
    return c


FAILED = object()


class Ctx(object):
    def __init__(self, shim, excluded=(), known_open=()):
        self.shim = shim
        self.excluded = set(excluded)
        self.known_open = list(known_open)   # [(labels set, predicate, id)]
        self.excluded_hits = collections.Counter()
        self.known_hits = collections.Counter()
        self.case = None
        self.notes = collections.Counter()
        self.pid = None
        self.timeout_files = set()

    def fail(self, label, detail=""):
        for labels, pred, kid in self.known_open:
            if _label_match(label, labels) and pred(self.case):
                self.known_hits[kid] += 1
                raise SkipCase()
        if label in self.excluded:
            self.excluded_hits[label] += 1
            raise SkipCase()
        v = violation_class(label)(label, detail)
        v.case = self.case
        raise v

    def check(self, cond, label, detail=""):
        if not cond:
            self.fail(label, detail() if callable(detail) else detail)

    def call(self, label, fn, *a, **k):
        """Calls into PySpike.  An exception there on in-contract input is a
        violation of the property under check, labelled by the call site."""
        try:
            with env.quiet(), watchdog():
                return fn(*a, **k)
        except (Violation, SkipCase, env.HarnessError):
            raise
        except Exception as e:
            from .pyxshim import shim_gap
            if shim_gap(e):
                raise env.HarnessError("the transliterated .pyx code uses an undefined name "
                                       "(%s): a construct outside the shim's Cython subset, or "
                                       "a file Cython would not compile" % e)
            tb = traceback.extract_tb(sys.exc_info()[2])
            where = ""
            for fr in reversed(tb):
                if "pyspike" in fr.filename or "<shim:" in fr.filename:
                    where = "%s:%d" % (os.path.basename(fr.filename), fr.lineno)
                    break
            self.fail("%s:exception:%s" % (label, type(e).__name__),
                      "%r at %s" % (e, where))
            return FAILED

    def set_backend(self, compiled):
        if compiled and not self.shim.ok:
            self.notes["compiled_case_run_on_fallback:shim_unavailable"] += 1
        self.shim.set(bool(compiled))


def _label_match(label, labels):
    for l in labels:
        if l == label or (l.endswith("*") and label.startswith(l[:-1])):
            return True
    return False


# ----------------------------------------------------------------------------
# phases
# ----------------------------------------------------------------------------
class HypPhase(object):
    kind = "hyp"

    def __init__(self, name, strategy, examples, tiers=("quick", "thorough")):
        self.name = name
        self.strategy = strategy      # fn(tier) -> hypothesis strategy of cases
        self.examples = examples      # {"quick": n, "thorough": m}  totals
        self.tiers = tiers


class EnumPhase(object):
    kind = "enum"

    def __init__(self, name, cases, domain, tiers=("thorough",)):
        self.name = name
        self.cases = cases            # fn(tier, shard, nshards) -> iterator of cases
        self.domain = domain          # fn(tier) -> text
        self.tiers = tiers


class MachinePhase(object):
    kind = "machine"

    def __init__(self, name, machine, examples, steps, tiers=("quick", "thorough")):
        self.name = name
        self.machine = machine        # fn(ctx, tier) -> RuleBasedStateMachine subclass
        self.examples = examples
        self.steps = steps
        self.tiers = tiers


# ----------------------------------------------------------------------------
# helpers
# ----------------------------------------------------------------------------
def canon(case):
    return json.dumps(case, sort_keys=True, default=_json_default)


def _json_default(o):
    import numpy as np
    if isinstance(o, np.ndarray):
        return o.tolist()
    if isinstance(o, (np.floating,)):
        return float(o)
    if isinstance(o, (np.integer,)):
        return int(o)
    if isinstance(o, (np.bool_,)):
        return bool(o)
    if isinstance(o, (set, frozenset, tuple)):
        return list(o)
    return repr(o)


def digest(case):
    return hashlib.sha1(canon(case).encode()).hexdigest()[:16]


class Stats(object):
    def __init__(self):
        self.evals = 0
        self.nontrivial = set()
        self.classes = collections.Counter()
        self.samples = []
        self.skipped = 0
        self.budget_skipped = 0
        self.per_phase = collections.Counter()
        self.nontrivial_enum = 0     # enumerated cases are distinct by construction

    def as_dict(self):
        return dict(evals=self.evals, nontrivial=self.nontrivial,
                    nontrivial_enum=self.nontrivial_enum,
                    classes=self.classes, samples=self.samples,
                    skipped=self.skipped, budget_skipped=self.budget_skipped,
                    per_phase=self.per_phase)


def _account(mod, stats, case, phase_name, by_construction=False):
    stats.evals += 1
    stats.per_phase[phase_name] += 1
    try:
        labels = mod.classify(case)
        nt = mod.nontrivial(case)
    except Exception:
        raise env.HarnessError("classify/nontrivial failed:\n" + traceback.format_exc())
    for l in labels:
        stats.classes[l] += 1
    if nt and by_construction:
        stats.nontrivial_enum += 1
        if len(stats.samples) < 2:
            stats.samples.append(json.loads(canon(case)))
    elif nt:
        d = digest(case)
        if d not in stats.nontrivial:
            stats.nontrivial.add(d)
            if len(stats.samples) < SAMPLES_KEPT:
                stats.samples.append(json.loads(canon(case)))


def run_any(mod, case, ctx):
    """A case is either what the property module generates, or a *sequence*
    {"sequence_of": [case, case, ...]} executed in order in one process - the
    replayable form of a failure that depends on an earlier call (stale caches,
    state carried between calls)."""
    if isinstance(case, dict) and "sequence_of" in case:
        for c in case["sequence_of"]:
            mod.run_case(c, ctx)
    else:
        mod.run_case(case, ctx)


def _run_one(mod, ctx, stats, case, phase_name, by_construction=False):
    if getattr(ctx, "timeouts", 0) >= MAX_TIMEOUTS_PER_WORKER:
        stats.budget_skipped += 1
        ctx.notes["skipped_after_repeated_timeouts"] += 1
        return None
    base = case["sequence_of"][-1] if "sequence_of" in case else case
    _account(mod, stats, base, phase_name, by_construction)
    ctx.case = case
    try:
        run_any(mod, case, ctx)
        if "sequence_of" not in case and hasattr(mod, "siblings"):
            # sibling cases share part of their identity with the case just run (same
            # spike times on other edges, same counts and sums, ...): a result that was
            # memoised on too small a key is wrong for them
            for sib in mod.siblings(case):
                ctx.case = {"sequence_of": [case, sib]}
                stats.per_phase[phase_name + ":sibling"] += 1
                mod.run_case(sib, ctx)
    except SkipCase:
        stats.skipped += 1
    except CaseTimeout:
        note_timeout(ctx, stats)
    finally:
        ctx.shim.set(False)
    return None


# ----------------------------------------------------------------------------
# workers (run in forked processes)
# ----------------------------------------------------------------------------
def _worker(job):
    try:
        return _worker_inner(job)
    except BaseException:
        return dict(harness_error=traceback.format_exc(), stats=Stats().as_dict(),
                    violations=[], excluded_hits={}, known_hits={}, notes={})


def _worker_inner(job):
    pid, tier, phase_idx, shard, nshards, n_examples, excluded, deadline = job
    shim = env.setup()
    mod = importlib.import_module("pbt.props." + pid.lower())
    phase = mod.PHASES[phase_idx]
    ctx = Ctx(shim, excluded, _known_open(mod, pid))
    ctx.pid = pid
    stats = Stats()
    violations = []
    herr = None
    seed_val = env.derive_seed(env.base_seed(), pid, phase.name, shard)

    if phase.kind == "enum":
        best = {}
        for case in phase.cases(tier, shard, nshards):
            if time.time() > deadline:
                stats.budget_skipped += 1
                break
            try:
                _run_one(mod, ctx, stats, case, phase.name, True)
            except Violation as v:
                b = best.get(v.label)
                size = len(canon(case))
                if b is None or size < b[0]:
                    best[v.label] = (size, v.label, v.detail, json.loads(canon(case)))
                if v.label not in ctx.excluded and len(best) < 8:
                    # keep exploring behind this failure; only the smallest
                    # witness per label is kept
                    pass
            except env.HarnessError:
                raise
        # NB labels found here are *not* excluded inside the loop so that the
        # smallest witness is found; one pass suffices for enumeration
        for (_, label, detail, case) in best.values():
            violations.append(dict(label=label, detail=detail, case=case,
                                   phase=phase.name))
    elif phase.kind == "hyp":
        import hypothesis
        from hypothesis import given, settings, HealthCheck, Phase
        strat = phase.strategy(tier)

        shrink = dict(best=None, until=None, recent=[])
        shrink_budget = 30.0 if tier == "quick" else 120.0
        ring = collections.deque(maxlen=40)

        @hypothesis.seed(seed_val)
        @settings(max_examples=max(1, n_examples), database=None, deadline=None,
                  report_multiple_bugs=False, derandomize=False,
                  phases=[Phase.generate, Phase.shrink],
                  suppress_health_check=[HealthCheck.too_slow,
                                         HealthCheck.data_too_large,
                                         HealthCheck.large_base_example])
        @given(strat)
        def test(case):
            if shrink["best"] is None:
                if time.time() > deadline:
                    stats.budget_skipped += 1
                    return
            elif time.time() > shrink["until"] and canon(case) != shrink["best"]:
                # shrinking budget used up: every candidate other than the current
                # best "passes", so the shrinker stops and replays the best one
                # (a wall-clock limit must never turn a failure into a pass)
                return
            try:
                _run_one(mod, ctx, stats, case, phase.name)
            except Violation:
                if shrink["best"] is None:
                    shrink["until"] = time.time() + shrink_budget
                shrink["best"] = canon(case)
                shrink["recent"] = list(ring)
                raise
            finally:
                ring.append(case)

        try:
            test()
        except Violation as v:
            violations.append(dict(label=v.label, detail=v.detail,
                                   case=json.loads(canon(v.case)), phase=phase.name,
                                   recent=json.loads(canon(shrink["recent"]))))
        except BaseException as e:
            v = _violation_in_group(e)
            if v is None:
                raise
            # Hypothesis calls a failure "flaky" when the same input fails once and
            # passes on a later call: that is what a defect depending on state carried
            # between calls looks like.  The assertion did fail: report it.
            violations.append(dict(label=v.label, detail="(not reproduced on an immediate "
                                   "second call in the same process: depends on the call "
                                   "history) " + str(v.detail),
                                   case=json.loads(canon(v.case)), phase=phase.name,
                                   recent=json.loads(canon(shrink["recent"]))))
    elif phase.kind == "machine":
        import hypothesis
        from hypothesis import settings, HealthCheck, Phase
        from hypothesis.stateful import run_state_machine_as_test
        machine = phase.machine(ctx, tier, stats, mod, deadline)
        st = settings(max_examples=max(1, n_examples), database=None, deadline=None,
                      report_multiple_bugs=False, derandomize=False,
                      stateful_step_count=phase.steps[tier],
                      phases=[Phase.generate, Phase.shrink],
                      suppress_health_check=[HealthCheck.too_slow,
                                             HealthCheck.data_too_large,
                                             HealthCheck.large_base_example,
                                             HealthCheck.filter_too_much])
        try:
            run_state_machine_as_test(hypothesis.seed(seed_val)(machine), settings=st)
        except Violation as v:
            violations.append(dict(label=v.label, detail=v.detail,
                                   case=json.loads(canon(v.case)), phase=phase.name))
        except BaseException as e:
            v = _violation_in_group(e)
            if v is None:
                raise
            violations.append(dict(label=v.label, detail="(flaky under Hypothesis) " +
                                   str(v.detail), case=json.loads(canon(v.case)),
                                   phase=phase.name))
        finally:
            shim.set(False)
    return dict(harness_error=herr, stats=stats.as_dict(), violations=violations,
                excluded_hits=dict(ctx.excluded_hits), known_hits=dict(ctx.known_hits),
                notes=dict(ctx.notes))


def _violation_in_group(e):
    if isinstance(e, Violation):
        return e
    for sub in getattr(e, "exceptions", ()) or ():
        v = _violation_in_group(sub)
        if v is not None:
            return v
    return None


# ----------------------------------------------------------------------------
# known findings
# ----------------------------------------------------------------------------
def load_known():
    p = os.path.join(env.VERIF_DIR, "known_findings.json")
    if not os.path.exists(p):
        return []
    with open(p) as f:
        return json.load(f).get("findings", [])


def _known_open(mod, pid):
    res = []
    for k in load_known():
        if k.get("status") != "open" or pid not in k.get("properties", []):
            continue
        pred = getattr(mod, "CLASSIFIERS", {}).get(k.get("classifier"))
        if pred is None:
            raise env.HarnessError("known finding %s names unknown classifier %r"
                                   % (k.get("id"), k.get("classifier")))
        res.append((set(k.get("labels", [])), pred, k["id"]))
    return res


# ----------------------------------------------------------------------------
# main
# ----------------------------------------------------------------------------
def replay_file(pid, label, case):
    d = os.path.join(env.VERIF_DIR, "replays", pid)
    os.makedirs(d, exist_ok=True)
    safe = "".join(ch if ch.isalnum() else "_" for ch in label)[:60]
    return os.path.join(d, "%s-%s.json" % (safe, digest(case)[:8]))


def _fresh_replay(pid, case):
    """exit code of replaying `case` in a fresh interpreter"""
    import subprocess
    import tempfile
    fd, tmp = tempfile.mkstemp(suffix=".json", prefix="vreplay_")
    try:
        with os.fdopen(fd, "w") as f:
            json.dump(dict(case=case), f, default=_json_default)
        r = subprocess.run([os.path.join(env.VERIF_DIR, "vcheck"), pid, "--replay", tmp],
                           capture_output=True, text=True, timeout=600)
        return r.returncode
    except Exception:
        return 2
    finally:
        try:
            os.unlink(tmp)
        except OSError:
            pass


def _stabilise(pid, v):
    """Makes sure the replay file reproduces in a fresh process.  A failure that
    needs an earlier call (stale cache ...) does not: then the cases executed
    just before it in the worker are prepended and the sequence is minimised."""
    if "sequence_of" in v["case"] or v.get("phase", "").startswith("corpus"):
        return
    if v["case"].get("kind") == "history":
        return
    rc = _fresh_replay(pid, v["case"])
    if rc == 1:
        return
    recent = v.get("recent") or []
    seq = list(recent) + [v["case"]]
    if not recent or _fresh_replay(pid, {"sequence_of": seq}) != 1:
        v["detail"] = "(observed in a long-running process, NOT reproduced by replaying " \
                      "the case alone in a fresh process: depends on call history) " + \
                      str(v["detail"])
        return
    prefix = list(recent)
    i = 0
    budget = time.time() + 180
    while i < len(prefix) and time.time() < budget:
        trial = prefix[:i] + prefix[i + 1:]
        if _fresh_replay(pid, {"sequence_of": trial + [v["case"]]}) == 1:
            prefix = trial
        else:
            i += 1
    v["case"] = {"sequence_of": prefix + [v["case"]]}
    v["detail"] = "(needs the preceding call(s) of the sequence: state carried between " \
                  "calls) " + str(v["detail"])


def _reach(pid, mod):
    """Thorough tier: which lines of the files this property is anchored in did a sample
    of its generated cases execute (coverage.py, separate process)?  Evidence about the
    generators, never a verdict."""
    import subprocess
    try:
        r = subprocess.run([sys.executable, os.path.join(env.VERIF_DIR, "tools", "reach.py"),
                            pid, "--n", "300", "--json"], capture_output=True, text=True,
                           timeout=1500, env=dict(os.environ, VERIF_REPO=env.REPO))
        for line in r.stdout.splitlines():
            if line.startswith("REACH-JSON "):
                data = json.loads(line[len("REACH-JSON "):])
                anchored = set()
                try:
                    for l in open(os.path.join(env.VERIF_DIR, "properties.jsonl")):
                        p = json.loads(l)
                        if p["id"] == pid:
                            anchored = set(p["anchors"]["files"])
                except Exception:
                    pass
                return {k: v for k, v in data.items() if k in anchored or not anchored}
        return {"error": (r.stderr or r.stdout)[-300:]}
    except Exception as e:      # noqa
        return {"error": repr(e)}


def run_replay(mod, pid, path):
    shim = env.setup()
    with open(path) as f:
        data = json.load(f)
    case = data["case"] if "case" in data else data
    ctx = Ctx(shim)
    ctx.case = case
    try:
        run_any(mod, case, ctx)
    except Violation as v:
        print("replay: %s  %s" % (v.label, v.detail))
        print("VIOLATION property=%s replay=%s" % (pid, os.path.relpath(path, env.VERIF_DIR)))
        return 1
    except CaseTimeout:
        print("INCONCLUSIVE property=%s replay: a call did not return within %d s (not a verdict)"
              % (pid, CALL_LIMIT_S))
        return 0
    finally:
        shim.set(False)
    print("replay: case passes")
    return 0


def main(argv=None):
    ap = argparse.ArgumentParser()
    ap.add_argument("property")
    ap.add_argument("--tier", default=os.environ.get("VERIF_TIER") or "quick",
                    choices=["quick", "thorough"])
    ap.add_argument("--replay")
    ap.add_argument("--scale", type=float,
                    default=float(os.environ.get("VERIF_SCALE", "1")))
    ap.add_argument("--budget", type=float, default=None,
                    help="wall-clock budget in s; running out means fewer cases")
    args = ap.parse_args(argv)
    pid = args.property.upper()
    t0 = time.time()
    try:
        shim = env.setup()
        mod = importlib.import_module("pbt.props." + pid.lower())
        if args.replay:
            return run_replay(mod, pid, args.replay)
        return _main(mod, pid, args, shim, t0)
    except env.HarnessError as e:
        print("HARNESS-ERROR property=%s %s" % (pid, e))
        return 2
    except Exception:
        print("HARNESS-ERROR property=%s\n%s" % (pid, traceback.format_exc()))
        return 2


def _main(mod, pid, args, shim, t0):
    tier = args.tier
    seed = env.base_seed()
    budget = args.budget
    if budget is None:
        budget = float(os.environ.get("VERIF_BUDGET_S",
                                      "240" if tier == "quick" else "3000"))
    deadline = t0 + budget
    total = Stats()
    found = []            # dicts label/detail/case/phase/replay
    excluded = set()
    excluded_hits = collections.Counter()
    known_hits = collections.Counter()
    notes = collections.Counter()
    known_lines = []

    # -- 0. known findings: open ones are announced when their witness still fails
    for k in load_known():
        if pid not in k.get("properties", []):
            continue
        if k.get("status") == "open":
            ctx = Ctx(shim)
            wit = k.get("witness", {}).get(pid)
            still = False
            if wit is not None:
                ctx.case = wit
                try:
                    run_any(mod, wit, ctx)
                except Violation:
                    still = True
                except SkipCase:
                    pass
                finally:
                    shim.set(False)
            if still:
                known_lines.append("KNOWN-FINDING: property=%s %s" % (pid, k["what"]))

    # -- 1. corpus (regression tier): plain replays, no library involved
    cdir = os.path.join(env.VERIF_DIR, "corpus", pid)
    corpus_n = 0
    if os.path.isdir(cdir):
        ctx = Ctx(shim, (), _known_open(mod, pid))
        for fn in sorted(os.listdir(cdir)):
            if not fn.endswith(".json"):
                continue
            with open(os.path.join(cdir, fn)) as f:
                data = json.load(f)
            case = data["case"] if "case" in data else data
            corpus_n += 1
            try:
                _run_one(mod, ctx, total, case, "corpus")
            except Violation as v:
                if v.label not in excluded:
                    excluded.add(v.label)
                    found.append(dict(label=v.label, detail=v.detail, case=case,
                                      phase="corpus:" + fn))
        known_hits.update(ctx.known_hits)

    # -- 2. generated phases, in rounds
    phases = [(i, p) for i, p in enumerate(mod.PHASES) if tier in p.tiers]
    ctxmp = multiprocessing.get_context("fork")
    herr = None
    for rnd in range(MAX_ROUNDS):
        jobs = []
        for i, p in phases:
            if p.kind == "enum":
                if rnd > 0:
                    continue          # enumeration reports all labels in one pass
                ns = NCPU
                for s in range(ns):
                    jobs.append((pid, tier, i, s, ns, 0, sorted(excluded), deadline))
            else:
                n = int(p.examples[tier] * args.scale)
                ns = NCPU if tier == "thorough" else min(NCPU, 8)
                ns = max(1, min(ns, n))
                for s in range(ns):
                    jobs.append((pid, tier, i, s, ns, (n + ns - 1) // ns,
                                 sorted(excluded), deadline))
        if not jobs:
            break
        with ctxmp.Pool(min(NCPU, len(jobs))) as pool:
            results = pool.map(_worker, jobs, chunksize=1)
        new = {}
        for r in results:
            if r["harness_error"]:
                herr = r["harness_error"]
            s = r["stats"]
            if rnd == 0:
                total.evals += s["evals"]
                total.nontrivial |= s["nontrivial"]
                total.nontrivial_enum += s["nontrivial_enum"]
                total.classes.update(s["classes"])
                total.per_phase.update(s["per_phase"])
                for c in s["samples"]:
                    if len(total.samples) < SAMPLES_KEPT:
                        total.samples.append(c)
                total.skipped += s["skipped"]
                total.budget_skipped += s["budget_skipped"]
                known_hits.update(r["known_hits"])
                notes.update(r["notes"])
            excluded_hits.update(r["excluded_hits"])
            for v in r["violations"]:
                if v["label"] in excluded:
                    continue
                b = new.get(v["label"])
                if b is None or len(canon(v["case"])) < len(canon(b["case"])):
                    new[v["label"]] = v
        if herr:
            break
        if not new:
            break
        for label, v in sorted(new.items()):
            excluded.add(label)
            found.append(v)
        if time.time() > deadline:
            break

    if herr:
        print("HARNESS-ERROR property=%s\n%s" % (pid, herr))
        return 2

    # -- 3. report
    for line in known_lines:
        print(line)
    for v in found:
        _stabilise(pid, v)
        path = replay_file(pid, v["label"], v["case"])
        with open(path, "w") as f:
            json.dump(dict(property=pid, label=v["label"], detail=v["detail"],
                           phase=v["phase"], seed=seed, tier=tier, case=v["case"]),
                      f, indent=1, default=_json_default)
        v["replay"] = os.path.relpath(path, env.VERIF_DIR)
        print("violation: %s  %s" % (v["label"], str(v["detail"])[:400]))
        print("VIOLATION property=%s replay=%s" % (pid, v["replay"]))

    wall = time.time() - t0
    enum_phases = [p for _, p in phases if p.kind == "enum"]
    cov = dict(
        evaluations=total.evals,
        distinct_nontrivial=len(total.nontrivial) + total.nontrivial_enum,
        rule=mod.RULE,
        samples=total.samples,
        classes=dict(sorted(total.classes.items())),
        per_phase=dict(total.per_phase),
        corpus_cases=corpus_n,
        exhaustive=bool(enum_phases) and total.budget_skipped == 0,
        skipped_after_excluded_or_known=total.skipped,
        excluded_known=dict(known_hits),
        budget_skipped=total.budget_skipped,
        notes=dict(notes),
        violations_found=[dict(label=v["label"], replay=v["replay"]) for v in found],
    )
    if enum_phases:
        cov["exhaustive_domain"] = "; ".join(p.domain(tier) for p in enum_phases)
    if tier == "thorough" and os.environ.get("VERIF_NO_REACH") != "1":
        cov["line_reach"] = _reach(pid, mod)
    assumptions = list(mod.ASSUMPTIONS)
    if not shim.ok:
        assumptions.append("THIS RUN: the .pyx kernels could not be transliterated (%s); "
                           "'compiled' cases ran on the pure-Python fallback" % shim.error)
    ev = dict(property_id=pid, tier=tier, seed=seed, level="exploration",
              coverage=cov, assumptions=assumptions, wall_s=round(wall, 2),
              violations=len(found))
    # sensitivity runs against a patched scratch tree (mutants/, seeded/, benign/) set
    # VERIF_EVIDENCE_DIR so that /verif/evidence only ever describes runs against /repo
    evdir = os.environ.get("VERIF_EVIDENCE_DIR") or os.path.join(env.VERIF_DIR, "evidence")
    os.makedirs(evdir, exist_ok=True)
    with open(os.path.join(evdir, pid + ".json"), "w") as f:
        json.dump(ev, f, indent=1, default=_json_default)
    ndist = len(total.nontrivial) + total.nontrivial_enum
    for k_, n_ in sorted(notes.items()):
        if k_.startswith("inconclusive:"):
            print("INCONCLUSIVE property=%s %d case(s): %s (saved under replays/%s/timeout-*.json; "
                  "not a verdict)" % (pid, n_, k_[len("inconclusive:"):], pid))
    print("%s %s seed=%d: %d cases (%d distinct non-trivial), %d violation label(s), %.1fs"
          % (pid, tier, seed, total.evals, ndist, len(found), wall))
    if hasattr(mod, "post_check") and not found and args.scale >= 1 \
            and total.budget_skipped == 0:
        msg = mod.post_check(notes, tier)
        if msg:
            print("HARNESS-ERROR property=%s %s" % (pid, msg))
            return 2
    if found:
        return 1        # (a tree that fails almost every case ends the search early: few
        #                  cases were generated, but the violations stand)
    if total.evals == 0 or ndist < 2:
        print("HARNESS-ERROR property=%s generator produced no non-trivial cases" % pid)
        return 2
    return 0
