"""Reference models, written from the property statements in exact rational
arithmetic with *global* definitions (no cursors, no merge scans), so that they
share no structure with the code under test.

Conventions: a train is a sorted list of Fractions, T0 < T1 the edges.
`side` is '+' for the right-hand limit and '-' for the left-hand limit.
"""
from fractions import Fraction as Fr
import math

F0 = Fr(0)
F1 = Fr(1)
F2 = Fr(2)


class SqrtFr(object):
    """c * sqrt(r) with rational c >= 0, r >= 0: the automatic threshold
    (root mean square of rational ISI lengths) and its quarter.  Ordering
    against rationals is decided exactly through squares; arithmetic that
    leaves the rationals falls back to float (values are compared with a
    tolerance anyway, decisions are not)."""
    __slots__ = ("r", "c")

    def __init__(self, r, c=1):
        self.r = Fr(r)
        self.c = Fr(c)

    def _sq(self):
        return self.c * self.c * self.r

    def __float__(self):
        return float(self.c) * math.sqrt(self.r)

    def _cmp(self, o):
        if isinstance(o, SqrtFr):
            a, b = self._sq(), o._sq()
        else:
            o = Fr(o)
            if o < 0:
                return 1
            a, b = self._sq(), o * o
        return (a > b) - (a < b)

    def __lt__(self, o):
        return self._cmp(o) < 0

    def __le__(self, o):
        return self._cmp(o) <= 0

    def __gt__(self, o):
        return self._cmp(o) > 0

    def __ge__(self, o):
        return self._cmp(o) >= 0

    def __eq__(self, o):
        return self._cmp(o) == 0

    def __ne__(self, o):
        return self._cmp(o) != 0

    def __hash__(self):
        return hash((self.r, self.c))

    def __truediv__(self, k):
        if isinstance(k, (int, Fr)):
            return SqrtFr(self.r, self.c / k)
        return float(self) / float(k)

    def __rtruediv__(self, k):
        return float(k) / float(self)

    def __mul__(self, k):
        if isinstance(k, (int, Fr)):
            return SqrtFr(self.r, self.c * k)
        return float(self) * float(k)

    __rmul__ = __mul__

    def __repr__(self):
        return "SqrtFr(%s)=%r" % (self._sq(), float(self))


def fr(x):
    return x if isinstance(x, (Fr, SqrtFr)) else Fr(x)


def frl(xs):
    return [fr(x) for x in xs]


# ---------------------------------------------------------------------------
# breakpoints, ISI
# ---------------------------------------------------------------------------
def breakpoints(trains, T0, T1):
    s = {T0, T1}
    for tr in trains:
        for t in tr:
            if T0 < t < T1:
                s.add(t)
    return sorted(s)


def isi_len(tr, t, T0, T1, side="+"):
    """Length of the inter-spike interval of `tr` containing t (one sided)."""
    if not tr:
        return T1 - T0
    if side == "+":
        prev = [s for s in tr if s <= t]
        foll = [s for s in tr if s > t]
    else:
        prev = [s for s in tr if s < t]
        foll = [s for s in tr if s >= t]
    n = len(tr)
    if prev and foll:
        return foll[0] - prev[-1]
    if not prev:
        return max(tr[0] - T0, tr[1] - tr[0]) if n > 1 else tr[0] - T0
    return max(T1 - tr[-1], tr[-1] - tr[-2]) if n > 1 else T1 - tr[-1]


def isi_profile(a, b, T0, T1, mrts=F0):
    x = breakpoints([a, b], T0, T1)
    y = []
    for k in range(len(x) - 1):
        mid = (x[k] + x[k + 1]) / 2
        v1 = isi_len(a, mid, T0, T1)
        v2 = isi_len(b, mid, T0, T1)
        d = max(v1, v2, mrts)
        y.append(abs(v1 - v2) / d if not isinstance(d, SqrtFr) else float(abs(v1 - v2)) / float(d))
    return x, y


# ---------------------------------------------------------------------------
# SPIKE
# ---------------------------------------------------------------------------
def effective(tr, T0, T1):
    return list(tr) if tr else [T0, T1]


def aux_spikes(e, T0, T1):
    if len(e) > 1:
        return min(T0, 2 * e[0] - e[1]), max(T1, 2 * e[-1] - e[-2])
    return T0, T1


def nearest(s, other_eff, T0, T1):
    lo, hi = aux_spikes(other_eff, T0, T1)
    return min(abs(s - o) for o in [lo] + list(other_eff) + [hi])


def _spike_part(e, oe, t, T0, T1, side):
    """(x_n, S_n) for the train with effective spikes e, other train oe."""
    if side == "+":
        prev = [s for s in e if s <= t]
        foll = [s for s in e if s > t]
    else:
        prev = [s for s in e if s < t]
        foll = [s for s in e if s >= t]
    n = len(e)
    if prev and foll:
        P, F = prev[-1], foll[0]
        x = F - P
        S = (nearest(P, oe, T0, T1) * (F - t) + nearest(F, oe, T0, T1) * (t - P)) / x
        return x, S
    if not prev:
        x = max(e[0] - T0, e[1] - e[0]) if n > 1 else e[0] - T0
        return x, nearest(e[0], oe, T0, T1)
    x = max(T1 - e[-1], e[-1] - e[-2]) if n > 1 else T1 - e[-1]
    return x, nearest(e[-1], oe, T0, T1)


def spike_value(a, b, T0, T1, t, side, mrts=F0, ri=False):
    ea = effective(a, T0, T1)
    eb = effective(b, T0, T1)
    x1, S1 = _spike_part(ea, eb, t, T0, T1, side)
    x2, S2 = _spike_part(eb, ea, t, T0, T1, side)
    m = (x1 + x2) / 2
    lim = max(m, mrts)
    if isinstance(lim, SqrtFr):
        lim = float(lim)
        if ri:
            return float(S1 + S2) / (2 * lim)
        return float(S1 * x2 + S2 * x1) / (2 * float(m) * lim)
    if ri:
        return (S1 + S2) / (2 * lim)
    return (S1 * x2 + S2 * x1) / (2 * m * lim)


def spike_profile(a, b, T0, T1, mrts=F0, ri=False):
    x = breakpoints([a, b], T0, T1)
    y1 = [spike_value(a, b, T0, T1, x[k], "+", mrts, ri) for k in range(len(x) - 1)]
    y2 = [spike_value(a, b, T0, T1, x[k + 1], "-", mrts, ri) for k in range(len(x) - 1)]
    return x, y1, y2


def spike_at(a, b, T0, T1, t, mrts=F0, ri=False):
    """Value of the profile *function* at t: mean of the limits at an interior
    breakpoint, one-sided at the edges."""
    if t == T0:
        return spike_value(a, b, T0, T1, t, "+", mrts, ri)
    if t == T1:
        return spike_value(a, b, T0, T1, t, "-", mrts, ri)
    return (spike_value(a, b, T0, T1, t, "+", mrts, ri) +
            spike_value(a, b, T0, T1, t, "-", mrts, ri)) / 2


# ---------------------------------------------------------------------------
# coincidence window, SPIKE-Sync, order, directionality
# ---------------------------------------------------------------------------
def _clamp(theta, a, b):
    """at least the two-sided minimum, at most the half-interval b facing the
    partner, theta in between"""
    return max(min(a, b), min(theta, b))


def _half(tr, k, T):
    p = (tr[k] - tr[k - 1]) / 2 if k > 0 else T / 2
    f = (tr[k + 1] - tr[k]) / 2 if k < len(tr) - 1 else T / 2
    return p, f


def window(a, i, b, j, T0, T1, mrts=F0, max_tau=None):
    T = T1 - T0
    p1, f1 = _half(a, i, T)
    p2, f2 = _half(b, j, T)
    th = mrts / 4
    if a[i] <= b[j]:
        tau = min(_clamp(th, p1, f1), _clamp(th, f2, p2))
    else:
        tau = min(_clamp(th, f1, p1), _clamp(th, p2, f2))
    if max_tau is not None and max_tau > 0:
        tau = min(tau, max_tau)
    return tau


def coincidences(a, b, T0, T1, mrts=F0, max_tau=None):
    """All pairs (i, j) that are mutually coincident, over ALL N1 x N2 pairs.
    Returns (pairs, ties) where ties are pairs with |dt| == tau exactly."""
    pairs = []
    ties = []
    for i in range(len(a)):
        for j in range(len(b)):
            tau = window(a, i, b, j, T0, T1, mrts, max_tau)
            d = abs(a[i] - b[j])
            if d < tau:
                pairs.append((i, j))
            elif d == tau:
                ties.append((i, j))
    return pairs, ties


def one_to_one(pairs):
    return (len(set(i for i, _ in pairs)) == len(pairs) and
            len(set(j for _, j in pairs)) == len(pairs))


def sync_profile(a, b, T0, T1, mrts=F0, max_tau=None):
    """interior entries [(time, y, mp)] in increasing time order"""
    pairs, _ = coincidences(a, b, T0, T1, mrts, max_tau)
    ca = set(i for i, _ in pairs)
    cb = set(j for _, j in pairs)
    ev = {}
    for i, s in enumerate(a):
        ev.setdefault(s, [0, 0])
        ev[s][0] += 1 if i in ca else 0
        ev[s][1] += 1
    for j, s in enumerate(b):
        ev.setdefault(s, [0, 0])
        ev[s][0] += 1 if j in cb else 0
        ev[s][1] += 1
    return [(t, ev[t][0], ev[t][1]) for t in sorted(ev)]


def directionality(a, b, T0, T1, mrts=F0, max_tau=None):
    """(D_a, D_b): +1 leader, -1 follower, 0 otherwise"""
    pairs, _ = coincidences(a, b, T0, T1, mrts, max_tau)
    da = [0] * len(a)
    db = [0] * len(b)
    for i, j in pairs:
        if a[i] < b[j]:
            da[i] += 1
            db[j] -= 1
        elif a[i] > b[j]:
            da[i] -= 1
            db[j] += 1
    return da, db


def order_profile(a, b, T0, T1, mrts=F0, max_tau=None):
    """interior entries [(time, y, mp)]: +1 on both spikes of a pair led by a"""
    da, db = directionality(a, b, T0, T1, mrts, max_tau)
    ev = {}
    for i, s in enumerate(a):
        ev.setdefault(s, [0, 0])
        ev[s][0] += da[i]
        ev[s][1] += 1
    for j, s in enumerate(b):
        ev.setdefault(s, [0, 0])
        ev[s][0] += -db[j]
        ev[s][1] += 1
    return [(t, ev[t][0], ev[t][1]) for t in sorted(ev)]


# ---------------------------------------------------------------------------
# automatic threshold
# ---------------------------------------------------------------------------
def isi_pool(tr, T0, T1):
    if not tr:
        return [T1 - T0]
    n = len(tr)
    pool = []
    if tr[0] > T0:
        pool.append(max(tr[0] - T0, tr[1] - tr[0]) if n > 1 else tr[0] - T0)
    pool += [tr[k + 1] - tr[k] for k in range(n - 1)]
    if tr[-1] < T1:
        pool.append(max(T1 - tr[-1], tr[-1] - tr[-2]) if n > 1 else T1 - tr[-1])
    return pool


def default_thresh_sq(trains, T0, T1):
    """mean of squares of the pooled ISI lengths (exact); threshold = sqrt"""
    pool = []
    for tr in trains:
        pool += isi_pool(tr, T0, T1)
    return sum(p * p for p in pool) / len(pool)


def default_thresh(trains, T0, T1):
    return math.sqrt(default_thresh_sq(trains, T0, T1))


def default_thresh_exact(trains, T0, T1):
    return SqrtFr(default_thresh_sq(trains, T0, T1))


# ---------------------------------------------------------------------------
# piecewise function models
# ---------------------------------------------------------------------------
class PW(object):
    """piecewise linear model (constant pieces have l == r): pieces
    (x0, x1, left value, right value) over Fractions"""

    def __init__(self, x, yl, yr=None):
        x = frl(x)
        yl = frl(yl)
        yr = yl if yr is None else frl(yr)
        assert len(x) == len(yl) + 1 == len(yr) + 1
        self.x = x
        self.yl = yl
        self.yr = yr

    def copy(self):
        return PW(list(self.x), list(self.yl), list(self.yr))

    def _piece(self, t, side):
        x = self.x
        n = len(x) - 1
        if side == "+":
            for k in range(n):
                if x[k] <= t < x[k + 1]:
                    return k
            raise ValueError("no right limit at %s" % t)
        for k in range(n):
            if x[k] < t <= x[k + 1]:
                return k
        raise ValueError("no left limit at %s" % t)

    def limit(self, t, side):
        k = self._piece(t, side)
        x0, x1 = self.x[k], self.x[k + 1]
        return self.yl[k] + (self.yr[k] - self.yl[k]) * (t - x0) / (x1 - x0)

    def value(self, t):
        if t == self.x[0]:
            return self.limit(t, "+")
        if t == self.x[-1]:
            return self.limit(t, "-")
        return (self.limit(t, "+") + self.limit(t, "-")) / 2

    def integral(self, a=None, b=None):
        if a is None:
            a, b = self.x[0], self.x[-1]
        tot = F0
        for k in range(len(self.x) - 1):
            lo = max(a, self.x[k])
            hi = min(b, self.x[k + 1])
            if lo < hi:
                x0, x1 = self.x[k], self.x[k + 1]
                sl = (self.yr[k] - self.yl[k]) / (x1 - x0)
                vlo = self.yl[k] + sl * (lo - x0)
                vhi = self.yl[k] + sl * (hi - x0)
                tot += (vlo + vhi) / 2 * (hi - lo)
        return tot

    def add(self, g):
        xs = sorted(set(self.x) | set(g.x))
        yl = []
        yr = []
        for k in range(len(xs) - 1):
            yl.append(self.limit(xs[k], "+") + g.limit(xs[k], "+"))
            yr.append(self.limit(xs[k + 1], "-") + g.limit(xs[k + 1], "-"))
        return PW(xs, yl, yr)

    def scale(self, c):
        c = fr(c)
        return PW(list(self.x), [c * v for v in self.yl], [c * v for v in self.yr])


class DiscreteModel(object):
    """support [T0, T1] and interior events {time: (sum y, sum mp)}; an event
    exactly on an edge is an event like any other (it is stored between the
    two framing entries) - the framing entries themselves never count."""

    def __init__(self, T0, T1, events=None):
        self.T0 = fr(T0)
        self.T1 = fr(T1)
        self.ev = dict(events or {})

    @classmethod
    def from_arrays(cls, x, y, mp):
        m = cls(x[0], x[-1])
        for k in range(1, len(x) - 1):
            t = fr(x[k])
            cur = m.ev.get(t, (F0, F0))
            m.ev[t] = (cur[0] + fr(y[k]), cur[1] + fr(mp[k]))
        return m

    def copy(self):
        return DiscreteModel(self.T0, self.T1, dict(self.ev))

    def add(self, g):
        ev = dict(self.ev)
        for t, (y, mp) in g.ev.items():
            cur = ev.get(t, (F0, F0))
            ev[t] = (cur[0] + y, cur[1] + mp)
        return DiscreteModel(self.T0, self.T1, ev)

    def scale(self, c):
        c = fr(c)
        return DiscreteModel(self.T0, self.T1,
                             {t: (c * y, mp) for t, (y, mp) in self.ev.items()})

    def entries(self):
        return [(t, self.ev[t][0], self.ev[t][1]) for t in sorted(self.ev)]

    def integral(self, intervals=None):
        if intervals is None:
            ts = list(self.ev)
            return (sum(self.ev[t][0] for t in ts), sum(self.ev[t][1] for t in ts))
        y = F0
        mp = F0
        for (a, b) in intervals:
            for t, (v, m) in self.ev.items():
                if a < t < b:
                    y += v
                    mp += m
        return y, mp

    def avrg(self, intervals=None):
        y, mp = self.integral(intervals)
        return y / mp if mp > 0 else F1


def smooth_model(y, mp, k):
    """Unit-expansion model of DiscreteFunc.get_plottable_data(k) (k >= 1) on
    the stored arrays (edge entries included, they are plotted): entry j is
    mp_j unit contributions of value y_j/mp_j; entry i averages its own units,
    the next E - mp_i units to the right and to the left (E = (k+1)*mp_0; fewer
    if the array ends; only its own if mp_i >= E)."""
    y = frl(y)
    mp = frl(mp)
    n = len(y)
    E = (k + 1) * int(mp[0])
    out = []
    for i in range(n):
        if mp[i] >= E:
            out.append(y[i] / mp[i])
            continue
        tot = y[i]
        cnt = mp[i]
        for step in (1, -1):
            need = E - mp[i]
            j = i + step
            while 0 <= j < n and need > 0:
                take = min(need, mp[j])
                tot += y[j] / mp[j] * take
                cnt += take
                need -= take
                j += step
        out.append(tot / cnt)
    return out
