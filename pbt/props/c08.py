"""C08 - time shift and scaling leave results unchanged; time reversal mirrors them."""
from fractions import Fraction as Fr

import numpy as np
from hypothesis import strategies as st

from .. import gen, oracle as O, ps, measures as M
from ..runner import HypPhase, EnumPhase

PID = "C08"
RULE = ("cases = (list of 2..4 valid trains on a dyadic grid, MRTS (also 'auto'), RI, "
        "max_tau, backend, a shift k/8, a scale factor 2^j with j in [-3,4]); every case "
        "is evaluated untransformed, shifted, scaled (MRTS and max_tau scaled too) and "
        "mirrored about the midpoint of the recording - all transformations are exact in "
        "binary64. Observed: ISI/SPIKE/SYNC/order profiles (bivariate and multivariate), "
        "all scalar values, directionality (both normalisations, values, matrix), distance "
        "matrices, default_thresh. Non-trivial = the mirror image treats the two edges by "
        "different code paths: a spike on exactly one edge, a one-spike train, or first "
        "edge interval != last edge interval. Distinct = distinct case JSON.")
ASSUMPTIONS = [
    "compiled=true cases execute the .pyx source through the pyxshim transliteration",
    "metamorphic relations between two runs of the same code; time axes compared exactly, "
    "values to 1e-12 (dyadic shifts and power-of-two scales keep every rounding identical)",
    "values of the two framing entries of discrete profiles are not compared under the "
    "mirror (the statement does not define them)",
]


@st.composite
def _case(draw, tier):
    nmax = 3 if tier == "quick" else 4
    sz = dict(max_spikes=7 if tier == "quick" else 16)
    g = draw(gen.int_train_lists(2, nmax, related=draw(st.sampled_from([False, True])), **sz))
    c = gen.to_times(g)
    c["mrts"] = draw(st.one_of(gen.mrts_for(g), st.just("auto")))
    c["ri"] = draw(st.booleans())
    c["max_tau"] = draw(gen.maxtau_for(g))
    c["shift"] = draw(st.integers(-80, 80)) / 8.0
    c["scale_exp"] = draw(st.sampled_from([1, -1, 2, 3, -2, 4, -3]))
    c["compiled"] = draw(st.booleans())
    # an averaging sub-interval (borders on and between spike times), carried along
    # with the time axis
    c["interval"] = draw(gen.interval_arg_for(g))
    return c


def _enum(tier, shard, nshards):
    """mirror relation, all pairs on {0..6}"""
    G = 6
    n = 1 << (G + 1)
    for m1 in range(shard, n, nshards):
        a = [float(k) for k in gen.subset_of_mask(m1, G)]
        for m2 in range(n):
            b = [float(k) for k in gen.subset_of_mask(m2, G)]
            yield dict(t0=0.0, t1=float(G), trains=[a, b], mrts=(None, 2.0, "auto")[m2 % 3],
                       ri=bool(m1 & 1), max_tau=(None, 1.0)[(m1 >> 1) & 1], shift=0.5,
                       scale_exp=1, compiled=bool((m1 + m2) & 1))


PHASES = [
    HypPhase("dyadic", _case, dict(quick=2500, thorough=20000)),
    EnumPhase("grid6", _enum,
              lambda tier: "all ordered pairs of subsets of {0..6} on [0,6], settings cycling "
                           "over MRTS in {omitted,2,'auto'} x RI x max_tau in {None,1}"),
]


def classify(case):
    labels = ["N=%d" % len(case["trains"]), "compiled" if case["compiled"] else "fallback"]
    labels += sorted(ps.train_kinds(case))
    if case["mrts"] == "auto":
        labels.append("mrts_auto")
    if _asym(case):
        labels.append("edges_asymmetric")
    return labels


def _asym(case):
    t0, t1 = case["t0"], case["t1"]
    for tr in case["trains"]:
        if len(tr) == 1:
            return True
        if tr:
            if (tr[0] == t0) != (tr[-1] == t1):
                return True
            if tr[0] - t0 != t1 - tr[-1]:
                return True
    return False


def nontrivial(case):
    return _asym(case)


def _tx_interval(iv, fx, reverse=False):
    """iv: (a, b) or a list of such, as given to the library"""
    if iv is None:
        return None
    if isinstance(iv, tuple):
        a, b = fx(iv[0]), fx(iv[1])
        return (b, a) if reverse else (a, b)
    out = [_tx_interval(tuple(i), fx, reverse) for i in iv]
    return list(reversed(out)) if reverse else out


def _bundle(ctx, trains, t0, t1, mrts, ri, max_tau, tag, iv=None):
    """everything observable, as plain lists"""
    import pyspike
    from pyspike.isi_lengths import default_thresh
    sts = [pyspike.SpikeTrain(np.array(tr, dtype=float), [t0, t1]) for tr in trains]
    a, b = sts[0], sts[1]
    kI = {} if mrts is None else {"MRTS": mrts}
    kS = dict(kI, **({"RI": True} if ri else {}))
    kC = dict(kI, **({} if max_tau == "omit" else {"max_tau": max_tau}))
    R = {}

    def prof(name, fn, *args, **kw):
        f = ctx.call(tag + ":" + name, fn, *args, **kw)
        R[name] = M.profile_arrays(f)

    def val(name, fn, *args, **kw):
        v = ctx.call(tag + ":" + name, fn, *args, **kw)
        R[name] = np.asarray(v, dtype=float).tolist() if not isinstance(v, list) \
            else [np.asarray(x, dtype=float).tolist() for x in v]

    prof("isi_profile", pyspike.isi_profile, a, b, **kI)
    prof("spike_profile", pyspike.spike_profile, a, b, **kS)
    prof("sync_profile", pyspike.spike_sync_profile, a, b, **kC)
    prof("order_profile", pyspike.spike_train_order_profile, a, b, **kC)
    for nm, fn_ in (("sync", pyspike.spike_sync_profile), ("order", pyspike.spike_train_order_profile)):
        f_ = ctx.call(tag + ":" + nm + "_for_plot", fn_, a, b, **kC)
        for w in (1, 2):
            xp, yp = ctx.call(tag + ":plottable", f_.get_plottable_data, w)
            R["plot_%s_%d" % (nm, w)] = dict(x=[float(v) for v in xp], y=[float(v) for v in yp],
                                             mp=[float(v) for v in f_.mp])
    if len(sts) > 2:
        prof("isi_profile_multi", pyspike.isi_profile, sts, **kI)
        prof("spike_profile_multi", pyspike.spike_profile, sts, **kS)
        prof("sync_profile_multi", pyspike.spike_sync_profile, sts, **kC)
        prof("order_profile_multi", pyspike.spike_train_order_profile, sts, **kC)
    val("isi_distance", pyspike.isi_distance, sts, **kI)
    val("spike_distance", pyspike.spike_distance, sts, **kS)
    val("spike_sync", pyspike.spike_sync, sts, **kC)
    val("order", pyspike.spike_train_order, sts, **kC)
    val("order_bi", pyspike.spike_train_order, a, b, **kC)
    val("dir_unnorm", pyspike.spike_directionality, a, b, normalize=False, **kC)
    val("dir_norm", pyspike.spike_directionality, a, b, normalize=True, **kC)
    val("dir_values", pyspike.spike_directionality_values, sts, **kC)
    val("dir_matrix", pyspike.spike_directionality_matrix, sts, normalize=False, **kC)
    val("isi_matrix", pyspike.isi_distance_matrix, sts, **kI)
    val("spike_matrix", pyspike.spike_distance_matrix, sts, **kS)
    val("sync_matrix", pyspike.spike_sync_matrix, sts, **kC)
    val("default_thresh", default_thresh, sts)
    if iv is not None:
        val("iv:isi_distance", pyspike.isi_distance, sts, interval=iv, **kI)
        val("iv:spike_distance", pyspike.spike_distance, sts, interval=iv, **kS)
        val("iv:spike_sync", pyspike.spike_sync, sts, interval=iv, **kC)
        val("iv:isi_distance_bi", pyspike.isi_distance, a, b, interval=iv, **kI)
        val("iv:spike_distance_bi", pyspike.spike_distance, a, b, interval=iv, **kS)
        val("iv:spike_sync_bi", pyspike.spike_sync, a, b, interval=iv, **kC)
        val("iv:sync_matrix", pyspike.spike_sync_matrix, sts, interval=iv, **kC)
        fs = ctx.call(tag + ":sync_profile_for_iv", pyspike.spike_sync_profile, sts, **kC)
        val("iv:sync_profile_integral", fs.integral, iv)
        fo = ctx.call(tag + ":order_profile_for_iv", pyspike.spike_train_order_profile, sts, **kC)
        val("iv:order_profile_integral", fo.integral, iv)
    R["n_spikes"] = sum(len(tr) for tr in trains)
    return R


def _close_list(a, b, tol=1e-12):
    a = np.asarray(a, dtype=float)
    b = np.asarray(b, dtype=float)
    if a.shape != b.shape:
        return False
    if a.size == 0:
        return True
    return bool(np.all(np.isfinite(a)) and np.all(np.isfinite(b)) and
                np.all(np.abs(a - b) <= tol * np.maximum(1.0, np.abs(b))))


PROFILES = ["isi_profile", "spike_profile", "sync_profile", "order_profile",
            "isi_profile_multi", "spike_profile_multi", "sync_profile_multi",
            "order_profile_multi"]
SCALARS = ["isi_distance", "spike_distance", "spike_sync", "order", "order_bi",
           "dir_unnorm", "dir_norm", "dir_matrix", "isi_matrix", "spike_matrix",
           "sync_matrix"]


def run_case(case, ctx):
    ctx.set_backend(case["compiled"])
    t0, t1 = case["t0"], case["t1"]
    trs = case["trains"]
    mrts, ri, mt = case["mrts"], bool(case["ri"]), case["max_tau"]
    iv = gen.to_interval(case.get("interval"))
    base = _bundle(ctx, trs, t0, t1, mrts, ri, mt, "base", iv)
    IVS = [k for k in base if k.startswith("iv:")]
    ivtol = 1e-12
    if iv is not None:
        ln = float(sum(b_ - a_ for a_, b_ in M.intervals_list(case["interval"])))
        ivtol = max(1e-12, 1e-13 * (t1 - t0) / ln)

    def iv_same(R, kind, flip=False):
        for k in IVS:
            want = np.asarray(base[k], dtype=float)
            if flip and k == "iv:order_profile_integral":
                want = want * np.array([-1.0, 1.0])
            ctx.check(_close_list(R[k], want, ivtol), "%s:interval:%s" % (kind, k[3:]),
                      lambda: "%s over the carried-along interval %r: %r, base (interval %r) %r"
                      % (k[3:], R.get("_iv"), R[k], iv, base[k]))

    def tx_invariant(name, R, fx, kind):
        for p in PROFILES:
            if p not in base:
                continue
            ctx.check(R[p]["x"] == [fx(v) for v in base[p]["x"]], "%s:time_axis:%s" % (kind, p),
                      lambda: "%s x=%r, transformed base x=%r"
                      % (p, R[p]["x"], [fx(v) for v in base[p]["x"]]))
            for k in base[p]:
                if k != "x":
                    # discrete profiles: events only, the framing entries never count
                    a_, b_ = (R[p][k][1:-1], base[p][k][1:-1]) if "mp" in base[p] \
                        else (R[p][k], base[p][k])
                    ctx.check(_close_list(a_, b_), "%s:values:%s" % (kind, p),
                              lambda: "%s.%s %r vs base %r" % (p, k, R[p][k], base[p][k]))
        for s in SCALARS:
            ctx.check(_close_list(R[s], base[s]), "%s:scalar:%s" % (kind, s),
                      lambda: "%s=%r, base %r" % (s, R[s], base[s]))
        for x, y in zip(R["dir_values"], base["dir_values"]):
            ctx.check(_close_list(x, y), "%s:scalar:dir_values" % kind,
                      lambda: "%r vs base %r" % (R["dir_values"], base["dir_values"]))

    # ---- shift
    s = case["shift"]
    sh = _bundle(ctx, [[v + s for v in tr] for tr in trs], t0 + s, t1 + s, mrts, ri, mt, "shift",
                 _tx_interval(iv, lambda v: v + s))
    tx_invariant("shift", sh, lambda v: v + s, "shift")
    sh["_iv"] = _tx_interval(iv, lambda v: v + s)
    iv_same(sh, "shift")
    ctx.check(_close_list(sh["default_thresh"], base["default_thresh"]),
              "shift:default_thresh",
              lambda: "%r vs %r" % (sh["default_thresh"], base["default_thresh"]))

    # ---- scale (power of two; MRTS and max_tau scale with the time axis)
    c = 2.0 ** case["scale_exp"]
    m2 = mrts if (mrts is None or mrts == "auto") else mrts * c
    mt2 = None if mt is None else mt * c
    sc = _bundle(ctx, [[v * c for v in tr] for tr in trs], t0 * c, t1 * c, m2, ri, mt2, "scale",
                 _tx_interval(iv, lambda v: v * c))
    tx_invariant("scale", sc, lambda v: v * c, "scale")
    sc["_iv"] = _tx_interval(iv, lambda v: v * c)
    iv_same(sc, "scale")
    ctx.check(_close_list(sc["default_thresh"], base["default_thresh"] * c),
              "scale:default_thresh",
              lambda: "%r vs %r * %r" % (sc["default_thresh"], base["default_thresh"], c))

    # ---- mirror about the midpoint
    def mir(v):
        return t0 + t1 - v
    mi = _bundle(ctx, [sorted(mir(v) for v in tr) for tr in trs], t0, t1, mrts, ri, mt, "mirror",
                 _tx_interval(iv, mir, reverse=True))
    mi["_iv"] = _tx_interval(iv, mir, reverse=True)
    iv_same(mi, "mirror", flip=True)
    for p in PROFILES:
        if p not in base:
            continue
        B, R = base[p], mi[p]
        if "mp" in B:
            # interior entries only
            bx, by, bmp = B["x"][1:-1], B["y"][1:-1], B["mp"][1:-1]
            rx, ry, rmp = R["x"][1:-1], R["y"][1:-1], R["mp"][1:-1]
            sign = -1.0 if p.startswith("order") else 1.0
            ctx.check(rx == [mir(v) for v in reversed(bx)] and R["x"][0] == t0
                      and R["x"][-1] == t1, "mirror:time_axis:" + p,
                      lambda: "%s x=%r, base x=%r" % (p, R["x"], B["x"]))
            ctx.check(ry == [sign * v for v in reversed(by)] and rmp == list(reversed(bmp)),
                      "mirror:values:" + p,
                      lambda: "%s mirrored y=%r mp=%r, base y=%r mp=%r (x=%r)"
                      % (p, ry, rmp, by, bmp, bx))
        else:
            ctx.check(R["x"] == [mir(v) for v in reversed(B["x"])], "mirror:time_axis:" + p,
                      lambda: "%s x=%r, base x=%r" % (p, R["x"], B["x"]))
            if "y1" in B:
                ok = _close_list(R["y1"], list(reversed(B["y2"]))) and \
                    _close_list(R["y2"], list(reversed(B["y1"])))
                ctx.check(ok, "mirror:values:" + p,
                          lambda: "%s mirrored y1=%r y2=%r; base y1=%r y2=%r x=%r"
                          % (p, R["y1"], R["y2"], B["y1"], B["y2"], B["x"]))
            else:
                ctx.check(_close_list(R["y"], list(reversed(B["y"]))), "mirror:values:" + p,
                          lambda: "%s mirrored y=%r base y=%r x=%r" % (p, R["y"], B["y"], B["x"]))
    # smoothed plottable data: mirrored too, when the window (k+1)*mp[0] is the same on
    # both sides (it is derived from the first framing entry)
    for key in [k for k in base if k.startswith("plot_")]:
        B, R = base[key], mi[key]
        if B["mp"][0] != B["mp"][-1] or R["mp"][0] != R["mp"][-1] or len(B["x"]) <= 2:
            continue        # (no events: the framing values are a convention, not mirrored)
        sign = -1.0 if "order" in key else 1.0
        ctx.check(R["x"] == [mir(v) for v in reversed(B["x"])] and
                  _close_list(R["y"], [sign * v for v in reversed(B["y"])]),
                  "mirror:plottable:" + key,
                  lambda: "%s mirrored y=%r, base y=%r (mp=%r)" % (key, R["y"], B["y"], B["mp"]))
    for s_ in ("isi_distance", "spike_distance", "spike_sync", "isi_matrix", "spike_matrix",
               "sync_matrix"):
        ctx.check(_close_list(mi[s_], base[s_]), "mirror:scalar:" + s_,
                  lambda: "%s=%r, base %r" % (s_, mi[s_], base[s_]))
    ctx.check(_close_list(mi["default_thresh"], base["default_thresh"]),
              "mirror:default_thresh",
              lambda: "%r vs %r" % (mi["default_thresh"], base["default_thresh"]))
    if base["n_spikes"] > 0:
        ctx.check(_close_list(mi["order"], -np.asarray(base["order"])), "mirror:order_sign",
                  lambda: "order %r, base %r" % (mi["order"], base["order"]))
    if len(trs[0]) + len(trs[1]) > 0:
        ctx.check(_close_list(mi["order_bi"], -np.asarray(base["order_bi"])),
                  "mirror:order_sign", lambda: "order(a,b) %r, base %r"
                  % (mi["order_bi"], base["order_bi"]))
    for s_ in ("dir_unnorm", "dir_norm", "dir_matrix"):
        ctx.check(_close_list(mi[s_], -np.asarray(base[s_])), "mirror:directionality_sign",
                  lambda: "%s=%r, base %r" % (s_, mi[s_], base[s_]))
    for x, y in zip(mi["dir_values"], base["dir_values"]):
        ctx.check(_close_list(x, [-v for v in reversed(y)]), "mirror:directionality_sign",
                  lambda: "values %r, base %r" % (mi["dir_values"], base["dir_values"]))
