"""C04 - spike-train order and directionality follow the leader/follower sign
convention."""
from fractions import Fraction as Fr

import numpy as np
from hypothesis import strategies as st

from .. import gen, oracle as O, ps
from ..runner import HypPhase, EnumPhase

PID = "C04"
RULE = ("cases = (list of 2..5 (thorough 2..6) valid trains on a dyadic grid - related "
        "(jittered) trains, shared spikes, empty trains -, MRTS, max_tau, an `indices` "
        "selection that is a random permutation of a random subset of size >= 2 or None, "
        "normalize flag, backend). Non-trivial = at least one coincident non-simultaneous "
        "pair among the selected trains and one of {>= 4 selected trains, non-identity "
        "indices, an empty selected train, a shared spike}. Distinct = distinct case JSON.")
ASSUMPTIONS = [
    "compiled=true cases execute the .pyx source through the pyxshim transliteration",
    "oracle = all-pairs window model + sign convention from the statement (exact rationals)",
    "normalised directionality of a train without spikes and the order value of trains "
    "without any spike are not asserted here (the statement divides by the spike count)",
]


@st.composite
def indices_for(draw, N, allow_none=True, kmin=2):
    if allow_none and draw(st.sampled_from([False, False, True])):
        return None
    k = draw(st.integers(kmin, N))
    return draw(st.permutations(list(range(N))))[:k]


@st.composite
def _case(draw, tier):
    nmax = 5 if tier == "quick" else 6
    sz = dict(max_spikes=6 if tier == "quick" else 14)
    many = draw(st.integers(0, 11)) == 0
    if many:
        # nine to twelve short trains, eight or more of them selected: size-threshold
        # paths of the multivariate functions (a strict subset via `indices` included)
        g = draw(gen.int_train_lists(9, 12, related=True, max_spikes=3, max_len=24))
    else:
        g = draw(gen.int_train_lists(2, nmax,
                                     related=draw(st.sampled_from([True, True, False])), **sz))
    c = gen.to_times(g)
    c["mrts"] = draw(gen.mrts_for(g, allow_auto=True))
    c["max_tau"] = draw(gen.maxtau_for(g))
    # 'auto' together with `indices`: the statement does not say which trains are
    # pooled for the threshold, so no reference values are asserted for that combination -
    # only that values, matrix and synfire indicator of the SAME call agree (run_case)
    c["indices"] = draw(indices_for(len(c["trains"]), kmin=8 if many else 2))
    c["normalize"] = draw(st.booleans())
    c["compiled"] = draw(st.booleans())
    c["prime"] = draw(st.sampled_from([None, None, None, "wider", "same"]))
    return c


def _enum(tier, shard, nshards):
    """three trains on {0..4}, all triples, indices in two orders"""
    G = 4
    n = 1 << (G + 1)
    idx = 0
    for m1 in range(n):
        for m2 in range(n):
            for m3 in range(n):
                idx += 1
                if idx % nshards != shard:
                    continue
                trs = [[float(k) for k in gen.subset_of_mask(m, G)] for m in (m1, m2, m3)]
                for ind in (None, [2, 0], [1, 2, 0]):
                    yield dict(t0=0.0, t1=float(G), trains=trs, mrts=0.0, max_tau=None,
                               indices=ind, normalize=bool(idx & 2),
                               compiled=bool(idx & 1))


PHASES = [
    HypPhase("dyadic", _case, dict(quick=5000, thorough=40000)),
    EnumPhase("grid4x3", _enum,
              lambda tier: "all ordered triples of subsets of {0..4} on [0,4] x indices in "
                           "{None,[2,0],[1,2,0]}, MRTS=0, no max_tau"),
]


def _sel(case):
    N = len(case["trains"])
    return list(range(N)) if case["indices"] is None else list(case["indices"])


def _model(case, pool=None):
    trs, T0, T1 = ps.fr_trains(case)
    m = ps.mrts_exact(case, pool)
    mt = Fr(case["max_tau"]) if case.get("max_tau") else None
    return trs, T0, T1, m, mt


def _has_lead(case):
    trs, T0, T1, m, mt = _model(case)
    sel = _sel(case)
    for x in range(len(sel)):
        for y in range(x + 1, len(sel)):
            da, _ = O.directionality(trs[sel[x]], trs[sel[y]], T0, T1, m, mt)
            if any(da):
                return True
    return False


def classify(case):
    sel = _sel(case)
    labels = ["N_sel=%d" % len(sel), "compiled" if case["compiled"] else "fallback"]
    if case["indices"] is not None:
        labels.append("indices_given")
        if list(case["indices"]) != list(range(len(case["indices"]))):
            labels.append("indices_not_identity_prefix")
    if _has_lead(case):
        labels.append("has_leader_follower_pair")
    sub = dict(case, trains=[case["trains"][k] for k in sel])
    labels += sorted(ps.train_kinds(sub) & {"empty_train", "shared_spike"})
    labels.append("normalize" if case["normalize"] else "unnormalized")
    return labels


def nontrivial(case):
    if not _has_lead(case):
        return False
    sel = _sel(case)
    sub = dict(case, trains=[case["trains"][k] for k in sel])
    kinds = ps.train_kinds(sub)
    nonid = case["indices"] is not None and \
        list(case["indices"]) != list(range(len(case["indices"])))
    return len(sel) >= 4 or nonid or bool(kinds & {"empty_train", "shared_spike"})


def _entries(f):
    return [(Fr(float(t)), Fr(float(y)), Fr(float(m)))
            for t, y, m in zip(f.x[1:-1], f.y[1:-1], f.mp[1:-1])]


def _relational_only(case, ctx):
    """MRTS='auto' with an `indices` selection: internal consistency of one and the same
    call - sum of a train's values * (N-1) = row sum of the un-normalised matrix, matrix
    antisymmetric, synfire indicator = 2 * upper triangle / ((N-1) * spikes)"""
    import pyspike
    sts = ps.trains(case)
    sel = _sel(case)
    n = len(sel)
    kw = ps.kw(case)
    ikw = {"indices": list(case["indices"])}
    vals = ctx.call("directionality_values", pyspike.spike_directionality_values, sts,
                    **ikw, **kw)
    Mx = np.asarray(ctx.call("directionality_matrix", pyspike.spike_directionality_matrix,
                             sts, normalize=False, **ikw, **kw))
    ctx.check(len(vals) == n and Mx.shape == (n, n), "shapes_auto_indices",
              lambda: "%d value arrays, matrix %r for %d selected trains"
              % (len(vals), Mx.shape, n))
    for x in range(n):
        ctx.check(ps.close(float(np.sum(vals[x])) * (n - 1), float(np.sum(Mx[x, :])), 1e-9),
                  "values_vs_matrix_row_auto_indices",
                  lambda: "indices=%r MRTS='auto': (N-1)*sum(values of selected train %d)=%r "
                          "but the row sum of the un-normalised matrix is %r"
                  % (case["indices"], x, float(np.sum(vals[x])) * (n - 1),
                     float(np.sum(Mx[x, :]))))
        for y in range(n):
            ctx.check(abs(Mx[y, x] + Mx[x, y]) <= 1e-12 * max(1.0, abs(Mx[x, y])), "matrix_antisymmetric",
                      lambda: "M[%d,%d]=%r M[%d,%d]=%r" % (x, y, Mx[x, y], y, x, Mx[y, x]))
    total = sum(len(case["trains"][k]) for k in sel)
    if total > 0:
        F = ctx.call("spike_train_order", pyspike.spike_train_order, sts, **ikw, **kw)
        up = sum(float(Mx[x, y]) for x in range(n) for y in range(x + 1, n))
        ctx.check(ps.close(F, 2 * up / ((n - 1) * total), 1e-9), "synfire_relation",
                  lambda: "indices=%r MRTS='auto': spike_train_order=%r, "
                          "2*triu/((N-1)*spikes)=%r" % (case["indices"], F,
                                                        2 * up / ((n - 1) * total)))


def run_case(case, ctx):
    import pyspike
    ctx.set_backend(case["compiled"])
    if case["mrts"] == "auto" and case["indices"] is not None:
        return _relational_only(case, ctx)
    sts = ps.trains(case)
    ps.prime(ctx, case, sts, (pyspike.spike_train_order_profile, pyspike.spike_train_order),
             pair_only=(pyspike.spike_directionality,))
    ps.judge_twice(case, ctx, sts, _judge)


def _judge(case, ctx, sts):
    import pyspike
    trs, T0, T1, m, mt = _model(case)
    sel = _sel(case)
    kw = ps.kw(case)
    ikw = {} if case["indices"] is None else {"indices": list(case["indices"])}
    nsel = len(sel)
    a, b = sel[0], sel[1]
    A, B = trs[a], trs[b]

    # 1. bivariate order profile and swap negation ('auto' pools the pair)
    m_all = m
    m = _model(case, [a, b])[3]
    exp = O.order_profile(A, B, T0, T1, m, mt)
    f = ctx.call("order_profile_bi", pyspike.spike_train_order_profile, sts[a], sts[b], **kw)
    ctx.check(_entries(f) == [(t, Fr(y), Fr(mp)) for t, y, mp in exp], "order_profile",
              lambda: "A=%r B=%r got x=%r y=%r mp=%r expected %r"
              % (ps.fl(A), ps.fl(B), list(f.x), list(f.y), list(f.mp),
                 [(float(t), y, mp) for t, y, mp in exp]))
    ctx.check(float(f.x[0]) == case["t0"] and float(f.x[-1]) == case["t1"], "order_edges",
              lambda: "x=%r" % list(f.x))
    g = ctx.call("order_profile_bi_swapped", pyspike.spike_train_order_profile,
                 sts[b], sts[a], **kw)
    ctx.check([(t, -y, mp) for t, y, mp in _entries(g)] == _entries(f), "order_swap_negates",
              lambda: "f(A,B).y=%r f(B,A).y=%r" % (list(f.y), list(g.y)))

    # 1b. un-normalised order value = sum of the profile values = 2 * sum of D_A
    dA0, _ = O.directionality(A, B, T0, T1, m, mt)
    ou = ctx.call("order_unnormalized", pyspike.spike_train_order, sts[a], sts[b],
                  normalize=False, **kw)
    ctx.check(float(ou) == 2 * sum(dA0), "order_unnormalized",
              lambda: "spike_train_order(normalize=False)=%r expected %r" % (ou, 2 * sum(dA0)))

    # 2. bivariate directionality, both normalisations, swap
    dA, dB = O.directionality(A, B, T0, T1, m, mt)
    d_un = ctx.call("directionality_unnorm", pyspike.spike_directionality,
                    sts[a], sts[b], normalize=False, **kw)
    ctx.check(float(d_un) == sum(dA), "directionality_unnormalized",
              lambda: "got %r expected %r (A=%r B=%r)" % (d_un, sum(dA), ps.fl(A), ps.fl(B)))
    d_sw = ctx.call("directionality_unnorm_swapped", pyspike.spike_directionality,
                    sts[b], sts[a], normalize=False, **kw)
    ctx.check(float(d_sw) == -float(d_un), "directionality_swap_negates",
              lambda: "D(A,B)=%r D(B,A)=%r" % (d_un, d_sw))
    if len(A) > 0:
        d_n = ctx.call("directionality_norm", pyspike.spike_directionality,
                       sts[a], sts[b], normalize=True, **kw)
        ctx.check(ps.close(d_n, Fr(sum(dA), len(A)), 1e-12), "directionality_normalized",
                  lambda: "got %r expected %r" % (d_n, float(Fr(sum(dA), len(A)))))

    # 3. values per spike over the selected trains ('auto' pools the list)
    m = m_all
    vals = ctx.call("directionality_values", pyspike.spike_directionality_values,
                    sts, **ikw, **kw)
    ctx.check(len(vals) == nsel, "values_length",
              lambda: "%d arrays for %d selected trains" % (len(vals), nsel))
    vals_then = [np.array(v, dtype=float, copy=True) for v in vals]
    D = {}
    for x in range(nsel):
        for y in range(nsel):
            if x != y:
                D[(x, y)] = O.directionality(trs[sel[x]], trs[sel[y]], T0, T1, m, mt)[0]
    for x in range(nsel):
        n_sp = len(trs[sel[x]])
        exp_v = [sum(Fr(D[(x, y)][i]) for y in range(nsel) if y != x) / (nsel - 1)
                 for i in range(n_sp)]
        ctx.check(len(vals[x]) == n_sp and ps.all_close(list(vals[x]), exp_v, 1e-12),
                  "directionality_values",
                  lambda: "selected train %d (index %d): got %r expected %r"
                  % (x, sel[x], list(vals[x]), ps.fl(exp_v)))

    # 4. matrix: pair values, antisymmetric, zero diagonal
    norm = bool(case["normalize"])
    M = ctx.call("directionality_matrix", pyspike.spike_directionality_matrix,
                 sts, normalize=norm, **ikw, **kw)
    M = np.asarray(M)
    ctx.check(M.shape == (nsel, nsel), "matrix_shape", lambda: "shape %r" % (M.shape,))
    for x in range(nsel):
        ctx.check(abs(M[x, x]) <= 1e-12, "matrix_diagonal", lambda: "M[%d,%d]=%r" % (x, x, M[x, x]))
        for y in range(x + 1, nsel):
            ctx.check(abs(M[y, x] + M[x, y]) <= 1e-12 * max(1.0, abs(M[x, y])), "matrix_antisymmetric",
                      lambda: "M[%d,%d]=%r M[%d,%d]=%r" % (x, y, M[x, y], y, x, M[y, x]))
            s = sum(D[(x, y)])
            n_sp = len(trs[sel[x]])
            if norm and n_sp == 0:
                continue
            e = Fr(s, n_sp) if norm else Fr(s)
            ctx.check(ps.close(M[x, y], e, 1e-12), "matrix_entry",
                      lambda: "M[%d,%d]=%r expected %r (trains %d,%d normalize=%r)"
                      % (x, y, M[x, y], float(e), sel[x], sel[y], norm))

    # 5. synfire indicator = 2 * upper triangle sum / ((N-1) * number of spikes)
    total = sum(len(trs[k]) for k in sel)
    if total > 0:
        Mu = M if not norm else np.asarray(ctx.call(
            "directionality_matrix_unnorm", pyspike.spike_directionality_matrix,
            sts, normalize=False, **ikw, **kw))
        up = sum(Fr(float(Mu[x, y])) for x in range(nsel) for y in range(x + 1, nsel))
        ref_model = Fr(2 * sum(sum(D[(x, y)]) for x in range(nsel)
                               for y in range(x + 1, nsel)), (nsel - 1) * total)
        F = ctx.call("spike_train_order", pyspike.spike_train_order, sts, **ikw, **kw) \
            if (nsel > 2 or case["indices"] is not None) else \
            ctx.call("spike_train_order", pyspike.spike_train_order, sts[a], sts[b], **kw)
        ctx.check(ps.close(F, 2 * up / ((nsel - 1) * total), 1e-12), "synfire_relation",
                  lambda: "spike_train_order=%r, 2*triu/((N-1)*spikes)=%r"
                  % (F, float(2 * up / ((nsel - 1) * total))))
        ctx.check(ps.close(F, ref_model, 1e-12), "synfire_value",
                  lambda: "spike_train_order=%r expected %r" % (F, float(ref_model)))

    # 5b. the arrays handed out in step 3 are the caller's: the later calls (swapped pair,
    # matrix, order) must not have written into them
    sw = ctx.call("directionality_values_swapped_pair", pyspike.spike_directionality_values,
                  [sts[b], sts[a]], **kw)
    ctx.check(len(vals) == len(vals_then) and
              all(np.array_equal(np.asarray(v, dtype=float), w) for v, w in zip(vals, vals_then)),
              "returned_values_changed_by_later_call",
              lambda: "spike_directionality_values returned %r; after further calls the same "
                      "arrays read %r" % ([list(w) for w in vals_then], [list(v) for v in vals]))
    del sw

    # 6. multivariate order profile = event-wise sum of the pair profiles
    if nsel > 2 or case["indices"] is not None:
        P = ctx.call("order_profile_multi", pyspike.spike_train_order_profile, sts,
                     **ikw, **kw)
        ev = {}
        for x in range(nsel):
            for y in range(x + 1, nsel):
                for t, yv, mp in O.order_profile(trs[sel[x]], trs[sel[y]], T0, T1, m, mt):
                    cur = ev.get(t, (0, 0))
                    ev[t] = (cur[0] + yv, cur[1] + mp)
        exp_m = [(t, Fr(ev[t][0]), Fr(ev[t][1])) for t in sorted(ev)]
        ctx.check(_entries(P) == exp_m, "order_profile_multi",
                  lambda: "got x=%r y=%r mp=%r expected %r"
                  % (list(P.x), list(P.y), list(P.mp),
                     [(float(t), float(y), float(mp)) for t, y, mp in exp_m]))


def siblings(case):
    """run right after the case in the same process (runner._run_one)"""
    sibs = [ps.sibling_wider_edges(case)]
    extra = ps.sibling_same_count_and_sum(case)
    if extra is not None:
        sibs.append(extra)
    return sibs
