"""C16 - max_tau is an upper bound on the coincidence window."""
from fractions import Fraction as Fr

import numpy as np
from hypothesis import strategies as st

from .. import gen, oracle as O, ps
from ..runner import HypPhase, EnumPhase

PID = "C16"
RULE = ("cases = (pair of valid trains on a dyadic grid, MRTS, 0 < max_tau1 <= max_tau2 "
        "with tie values: spike-time differences between the trains, half-grid values, "
        "backend); four observers: SPIKE-Sync profile, spike-train-order profile, "
        "directionality values, sync filter at threshold 0. Non-trivial = without bound "
        "the trains have a coincident pair whose distance is >= max_tau1 (the bound "
        "bites). Distinct = distinct case JSON.")
ASSUMPTIONS = [
    "compiled=true cases execute the .pyx source through the pyxshim transliteration",
    "oracle is a validity predicate independent of the window model: a reported "
    "coincidence needs a spike of the other train strictly closer than max_tau; plus "
    "metamorphic relations None == 0 and monotonicity in max_tau",
]


@st.composite
def _case(draw, tier):
    g = draw(gen.int_train_lists(2, 2, related=draw(st.sampled_from([True, True, False])),
                                 **gen.sizes(tier)))
    if draw(st.integers(0, 9)) == 0 and not g.get("fine") and g["n"] >= 8:
        # sparse trains far apart and a bound between half and the whole recording:
        # the only place where "a missing neighbour counts as the recording length"
        # and the bound interact
        n = g["n"]
        a = sorted(set(draw(st.lists(st.integers(0, n // 4), min_size=1, max_size=2))))
        b = sorted(set(draw(st.lists(st.integers(n - n // 4, n), min_size=1, max_size=2))))
        g = dict(g, trains=[a, b][::draw(st.sampled_from([1, -1]))])
        c = gen.to_times(g)
        c["mrts"] = draw(st.sampled_from([None, 0.0, 4.0 * n / g["q"]]))
        c["mt1"] = draw(st.integers(n + 1, 2 * n - 1)) / (2.0 * g["q"])       # in (T/2, T)
        c["mt2"] = draw(st.sampled_from([n, n + 1, 2 * n])) / float(g["q"])   # >= T
        c["compiled"] = draw(st.booleans())
        c["interval"] = None
        return c
    c = gen.to_times(g)
    c["mrts"] = draw(gen.mrts_for(g, allow_auto=True))
    m1 = draw(gen.maxtau_for(g, positive_only=True, bite=True))
    m2 = draw(st.one_of(gen.maxtau_for(g, positive_only=True), st.just(m1)))
    c["mt1"], c["mt2"] = min(m1, m2), max(m1, m2)
    c["compiled"] = draw(st.booleans())
    c["interval"] = draw(st.one_of(st.none(), gen.subinterval_for(g).map(list)))
    c["mt_array"] = draw(st.sampled_from([False, False, True]))
    # valid trains handed over with Reconcile=False: the bound applies all the same
    c["reconcile_off"] = draw(st.sampled_from([False, False, True]))
    return c


def _enum(tier, shard, nshards):
    G = 7
    n = 1 << (G + 1)
    for m1 in range(shard, n, nshards):
        a = [float(k) for k in gen.subset_of_mask(m1, G)]
        for m2 in range(n):
            b = [float(k) for k in gen.subset_of_mask(m2, G)]
            for mrts in (0.0, 2.0, 6.0):
                for (x, y) in ((0.5, 1.0), (1.0, 1.5), (1.0, 2.0), (2.0, 3.0)):
                    yield dict(t0=0.0, t1=float(G), trains=[a, b], mrts=mrts,
                               mt1=x, mt2=y, compiled=bool((m1 + m2) & 1),
                               interval=[1.0, 5.5] if m2 & 1 else None)


PHASES = [
    HypPhase("dyadic", _case, dict(quick=6000, thorough=50000)),
    EnumPhase("grid7", _enum,
              lambda tier: "all ordered pairs of subsets of {0..7} on [0,7] x MRTS in "
                           "{0,2,6} x (max_tau1,max_tau2) in {(.5,1),(1,1.5),(1,2),(2,3)}"),
]


def _unbounded_pairs(case):
    (a, b), T0, T1 = ps.fr_trains(case)
    pairs, _ = O.coincidences(a, b, T0, T1, ps.mrts_exact(case), None)
    return a, b, pairs


def classify(case):
    a, b, pairs = _unbounded_pairs(case)
    labels = ["compiled" if case["compiled"] else "fallback"]
    if any(abs(a[i] - b[j]) >= Fr(case["mt1"]) for i, j in pairs):
        labels.append("bound_bites")
        if any(abs(a[i] - b[j]) >= Fr(case["mt1"]) and 0 < i < len(a) - 1
               and 0 < j < len(b) - 1 for i, j in pairs):
            labels.append("bound_bites_interior_pair")
    if any(abs(a[i] - b[j]) == Fr(case["mt1"]) for i in range(len(a))
           for j in range(len(b))):
        labels.append("dt_equals_max_tau")
    if case["mrts"]:
        labels.append("mrts_positive")
    return labels


def nontrivial(case):
    a, b, pairs = _unbounded_pairs(case)
    return any(abs(a[i] - b[j]) >= Fr(case["mt1"]) for i, j in pairs)


def _closest(t, other):
    return min((abs(t - o) for o in other), default=None)


def _observe(ctx, case, st1, st2, mt):
    """returns coincidence sets per observer: dict name -> (set of (train, time))"""
    import pyspike
    kw = {}
    if case["mrts"] is not None:
        kw["MRTS"] = case["mrts"]
    if case.get("reconcile_off"):
        kw["Reconcile"] = False
    mk = {} if mt == "omit" else {"max_tau": mt}
    if case.get("mt_array") and isinstance(mt, float) and mt > 0:
        # the bound handed over as a 0-d numpy array (as np.loadtxt / loadmat give it):
        # it is an argument like any other and must not be changed by the calls
        holder = np.array(mt)
        mk = {"max_tau": holder}
    res = {}
    f = ctx.call("spike_sync_profile", pyspike.spike_sync_profile, st1, st2, **mk, **kw)
    a, b = case["trains"]
    s = set()
    for t, y, mp in zip(f.x[1:-1], f.y[1:-1], f.mp[1:-1]):
        if y > 0:
            if t in a:
                s.add((0, float(t)))
            if t in b:
                s.add((1, float(t)))
    res["sync"] = (s, (list(f.x), list(f.y), list(f.mp)))
    g = ctx.call("spike_train_order_profile", pyspike.spike_train_order_profile,
                 st1, st2, **mk, **kw)
    s = set()
    for t, y, mp in zip(g.x[1:-1], g.y[1:-1], g.mp[1:-1]):
        if y != 0:
            if t in a:
                s.add((0, float(t)))
            if t in b:
                s.add((1, float(t)))
    res["order"] = (s, (list(g.x), list(g.y), list(g.mp)))
    d = ctx.call("spike_directionality_values", pyspike.spike_directionality_values,
                 st1, st2, **mk, **kw)
    s = set()
    for n in (0, 1):
        for t, v in zip(case["trains"][n], d[n]):
            if v != 0:
                s.add((n, float(t)))
    res["directionality"] = (s, [list(x) for x in d])
    kept = ctx.call("filter_by_spike_sync", pyspike.filter_by_spike_sync,
                    [st1, st2], 0.0, **mk, **kw)
    s = set()
    for n in (0, 1):
        for t in kept[n].spikes:
            s.add((n, float(t)))
    res["filter"] = (s, [list(k.spikes) for k in kept])
    # scalar forms (bivariate, list form = multivariate code path, matrix), whole
    # recording and the sub-interval of the case
    iv = case.get("interval")
    ivs = [None] + ([tuple(iv)] if iv else [])
    sc = {}
    for I in ivs:
        ik = {} if I is None else {"interval": I}
        sc[("sync_bi", I)] = float(ctx.call("spike_sync", pyspike.spike_sync, st1, st2,
                                            **ik, **mk, **kw))
        sc[("sync_list", I)] = float(ctx.call("spike_sync_list", pyspike.spike_sync,
                                              [st1, st2], **ik, **mk, **kw))
        sc[("sync_matrix", I)] = float(np.asarray(ctx.call(
            "spike_sync_matrix", pyspike.spike_sync_matrix, [st1, st2], **ik, **mk, **kw))[0, 1])
    sc[("order_bi", None)] = float(ctx.call("spike_train_order", pyspike.spike_train_order,
                                            st1, st2, **mk, **kw))
    sc[("order_list", None)] = float(ctx.call("spike_train_order_list",
                                              pyspike.spike_train_order, [st1, st2],
                                              **mk, **kw))
    sc[("dir_matrix", None)] = float(np.asarray(ctx.call(
        "spike_directionality_matrix", pyspike.spike_directionality_matrix, [st1, st2],
        normalize=False, **mk, **kw))[0, 1])
    res["scalars"] = sc
    if case.get("mt_array") and isinstance(mt, float) and mt > 0:
        ctx.check(float(mk["max_tau"]) == mt, "max_tau_argument_modified",
                  lambda: "max_tau passed as np.array(%r) is %r after the calls"
                  % (mt, float(mk["max_tau"])))
    return res


def run_case(case, ctx):
    ctx.set_backend(case["compiled"])
    st1, st2 = ps.trains(case)
    tr = case["trains"]
    obs1 = _observe(ctx, case, st1, st2, case["mt1"])
    obs2 = _observe(ctx, case, st1, st2, case["mt2"])
    obsN = _observe(ctx, case, st1, st2, None)
    obs0 = _observe(ctx, case, st1, st2, 0.0)
    obsO = _observe(ctx, case, st1, st2, "omit")
    # the coincidences themselves, from the all-pairs definition with the window capped at
    # the bound (None: not capped) - in the order the bounds were used above, on the same
    # objects: a bound used earlier must not linger
    (fa, fb), T0, T1 = ps.fr_trains(case)
    m_exact = ps.mrts_exact(case)
    for mt, obs in ((case["mt1"], obs1), (case["mt2"], obs2), (None, obsN)):
        pairs, ties = O.coincidences(fa, fb, T0, T1, m_exact, Fr(mt) if mt else None)
        want = set((0, float(fa[i])) for i, _ in pairs) | set((1, float(fb[j])) for _, j in pairs)
        ctx.check(obs["sync"][0] == want, "coincidences_differ_from_definition",
                  lambda: "max_tau=%r: SPIKE-Sync marks %r, the definition gives %r (trains %r)"
                  % (mt, sorted(obs["sync"][0]), sorted(want), tr))
    for name in ("sync", "order", "directionality", "filter"):
        for mt, obs in ((case["mt1"], obs1), (case["mt2"], obs2)):
            for (n, t) in sorted(obs[name][0]):
                d = _closest(t, tr[1 - n])
                ctx.check(d is not None and d < mt, "bound:" + name,
                          lambda: "%s reports spike %r of train %d coincident with "
                                  "max_tau=%r but the closest spike of the other train "
                                  "is %r away" % (name, t, n, mt, d))
        ctx.check(obsN[name][1] == obs0[name][1] == obsO[name][1], "none_equals_zero:" + name,
                  lambda: "%s: max_tau=None %r, max_tau=0 %r, omitted %r"
                  % (name, obsN[name][1], obs0[name][1], obsO[name][1]))
        ctx.check(obs1[name][0] <= obs2[name][0], "monotone:" + name,
                  lambda: "%s: coincident with max_tau=%r but not with %r: %r"
                  % (name, case["mt1"], case["mt2"], sorted(obs1[name][0] - obs2[name][0])))
        ctx.check(obs2[name][0] <= obsN[name][0], "subset_of_unbounded:" + name,
                  lambda: "%s: coincident with max_tau=%r but not without bound: %r"
                  % (name, case["mt2"], sorted(obs2[name][0] - obsN[name][0])))
    # scalar forms: nothing closer than max_tau -> no coincidence can be counted;
    # None == 0; SPIKE-Sync values never decrease when max_tau grows
    allp = [abs(x - y) for x in tr[0] for y in tr[1]]
    for mt, obs in ((case["mt1"], obs1), (case["mt2"], obs2)):
        if allp and min(allp) >= mt:
            for (name, I), v in obs["scalars"].items():
                if name.startswith("sync"):
                    lo, hi = (case["t0"], case["t1"]) if I is None else I
                    inside = [t for t in tr[0] + tr[1]
                              if (lo < t < hi) or (I is None and lo <= t <= hi)]
                    exp = 0.0 if inside else 1.0
                else:
                    if not (tr[0] or tr[1]):
                        continue
                    exp = 0.0
                ctx.check(v == exp, "bound:scalar:" + name,
                          lambda: "%s(interval=%r, max_tau=%r) = %r although the closest "
                                  "spikes of the two trains are %r apart"
                          % (name, I, mt, v, min(allp)))
    for key in obsN["scalars"]:
        ctx.check(obsN["scalars"][key] == obs0["scalars"][key] == obsO["scalars"][key]
                  or all(v != v for v in (obsN["scalars"][key], obs0["scalars"][key],
                                          obsO["scalars"][key])),
                  "none_equals_zero:scalar:" + key[0],
                  lambda: "%r: None %r, 0 %r, omitted %r" % (key, obsN["scalars"][key],
                                                          obs0["scalars"][key],
                                                          obsO["scalars"][key]))
        if key[0].startswith("sync"):
            a_, b_, c_ = obs1["scalars"][key], obs2["scalars"][key], obsN["scalars"][key]
            ctx.check(a_ <= b_ + 1e-12 and b_ <= c_ + 1e-12, "monotone:scalar:" + key[0],
                      lambda: "%r: max_tau=%r -> %r, max_tau=%r -> %r, unbounded %r"
                      % (key, case["mt1"], a_, case["mt2"], b_, c_))
    # simultaneous spikes are 0 apart: always inside any positive bound
    shared = set(tr[0]) & set(tr[1])
    for t in shared:
        ctx.check((0, t) in obs1["sync"][0] and (0, t) in obs1["filter"][0],
                  "shared_spike_not_coincident",
                  lambda: "shared spike %r not reported coincident at max_tau=%r"
                  % (t, case["mt1"]))
