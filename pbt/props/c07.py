"""C07 - measures respect range, symmetry and identity axioms."""
from fractions import Fraction as Fr

import numpy as np
from hypothesis import strategies as st

from .. import gen, oracle as O, ps, measures as M
from ..runner import HypPhase, EnumPhase

PID = "C07"
RULE = ("cases = (pair of valid trains - dyadic grid or arbitrary doubles -, MRTS, RI, "
        "max_tau, averaging interval, backend); identity cases compare a train with "
        "itself, with copy() and with an equal new object. Non-trivial = both trains have "
        "spikes and the case has a tie (shared spike) or an edge spike, or it is an "
        "identity case with >= 2 spikes. Distinct = distinct case JSON.")
ASSUMPTIONS = [
    "compiled=true cases execute the .pyx source through the pyxshim transliteration",
    "validity predicates and metamorphic relations only (no reference values): [0,1] with "
    "1e-12 rounding slack, swap symmetry to 1e-12, identities exact up to 1e-12",
]


@st.composite
def _settings(draw, c, g=None):
    if g is not None:
        c["mrts"] = draw(gen.mrts_for(g, allow_auto=True))
        c["max_tau"] = draw(gen.maxtau_for(g))
        c["interval"] = draw(gen.interval_arg_for(g))
    else:
        ln = c["t1"] - c["t0"]
        c["mrts"] = draw(gen.float_mrts(ln))
        c["max_tau"] = draw(st.one_of(st.none(), st.just(0.0),
                                      st.integers(1, 1 << 20).map(lambda k: ln * k / (1 << 20))))
        a = draw(st.integers(0, (1 << 16) - 1))
        b = draw(st.integers(a + 1, 1 << 16))
        c["interval"] = draw(st.sampled_from([None, "iv"]))
        if c["interval"] == "iv":
            lo = c["t0"] + ln * a / (1 << 16)
            hi = min(c["t1"], c["t0"] + ln * b / (1 << 16))
            c["interval"] = [lo, hi] if lo < hi else None
    c["ri"] = draw(st.booleans())
    c["compiled"] = draw(st.booleans())
    # the (valid) trains are handed over with Reconcile=False: the very same objects
    # then reach the kernels in both argument orders
    c["reconcile_off"] = draw(st.sampled_from([False, False, True]))
    return c


@st.composite
def _dyadic(draw, tier):
    g = draw(gen.int_train_lists(2, 2, related=draw(st.sampled_from([False, True])),
                                 **gen.sizes(tier)))
    if draw(st.integers(0, 15)) == 0 and not g.get("fine"):
        # a long train that falls silent early against a train that only spikes late
        # (a bursting cell next to a late responder): the nearest-spike search runs
        # past the end of the long train
        k = draw(st.integers(20, 48))
        n = max(g["n"], 2 * k + 8)
        burst = sorted(draw(st.lists(st.integers(1, n // 2), min_size=k, max_size=k,
                                     unique=True)))
        late = sorted(set(draw(st.lists(st.integers(n // 2 + n // 4, n), min_size=1,
                                        max_size=2))))
        g = dict(q=g["q"], k0=g["k0"], n=n, trains=[burst, late][::draw(st.sampled_from([1, -1]))])
    c = gen.to_times(g)
    c["domain"] = "dyadic"
    c["identity"] = draw(st.sampled_from([None, None, None, "same", "copy", "equal"]))
    if c["identity"]:
        c["trains"][1] = list(c["trains"][0])
        g["trains"][1] = list(g["trains"][0])
    return draw(_settings(c, g))


@st.composite
def _float(draw, tier):
    c = draw(gen.float_train_lists(2, 2, max_spikes=8 if tier == "quick" else 20))
    c["domain"] = "float"
    c["identity"] = draw(st.sampled_from([None, None, None, "same", "copy", "equal"]))
    if c["identity"]:
        c["trains"][1] = list(c["trains"][0])
    return draw(_settings(c))


def _enum(tier, shard, nshards):
    G = 6
    n = 1 << (G + 1)
    for m1 in range(shard, n, nshards):
        a = [float(k) for k in gen.subset_of_mask(m1, G)]
        for m2 in range(n):
            b = [float(k) for k in gen.subset_of_mask(m2, G)]
            for (mrts, ri, mt) in ((None, False, None), (3.0, True, 1.0)):
                yield dict(t0=0.0, t1=float(G), trains=[a, b], domain="dyadic",
                           identity=None, mrts=mrts, ri=ri, max_tau=mt, interval=None,
                           compiled=bool((m1 + m2) & 1))


PHASES = [
    HypPhase("dyadic", _dyadic, dict(quick=6000, thorough=50000)),
    HypPhase("float", _float, dict(quick=2500, thorough=30000)),
    EnumPhase("grid6", _enum,
              lambda tier: "all ordered pairs of subsets of {0..6} on [0,6] x settings in "
                           "{defaults, (MRTS=3, RI, max_tau=1)}"),
]


def classify(case):
    labels = sorted(ps.train_kinds(case))
    labels.append("compiled" if case["compiled"] else "fallback")
    labels.append("domain:" + case["domain"])
    if case["identity"]:
        labels.append("identity:" + case["identity"])
    if case["interval"] is not None:
        labels.append("sub_interval")
    return labels


def nontrivial(case):
    a, b = case["trains"]
    if case["identity"]:
        return len(a) >= 2
    if not a or not b:
        return False
    k = ps.train_kinds(case)
    return bool(k & {"shared_spike", "spike_on_t_start", "spike_on_t_end"})


SLACK = 1e-12


def _in01(v, slack=SLACK):
    v = np.asarray(v, dtype=float)
    return bool(np.all(np.isfinite(v)) and np.all(v >= -slack) and np.all(v <= 1 + slack))


def run_case(case, ctx):
    import pyspike
    ctx.set_backend(case["compiled"])
    st1, st2 = ps.trains(case)
    if not case["identity"]:
        # an unrelated earlier call, in ONE argument order only, with a train that has
        # the same number of spikes and the same sum of spike times as the first one:
        # whatever it leaves behind must not make f(a,b) and f(b,a) differ
        pr = ps.sibling_same_count_and_sum(case)
        if pr is not None:
            p1 = ps.trains(pr)[0]
            for meas in ("ISI", "SPIKE", "SYNC"):
                fnp = M.funcs(meas)
                ctx.call("priming_call", fnp["dist"], p1, st2, **M.kwargs_for(meas, case))
    if case["identity"] == "same":
        st2 = st1
    elif case["identity"] == "copy":
        st2 = st1.copy()
    iv = gen.to_interval(case["interval"])
    ivk = {} if iv is None else {"interval": iv}
    res = {}
    for meas in ("ISI", "SPIKE", "SYNC"):
        fn = M.funcs(meas)
        kw = M.kwargs_for(meas, case)
        if case.get("reconcile_off"):
            kw["Reconcile"] = False
        f = ctx.call(meas + "_profile", fn["profile"], st1, st2, **kw)
        g = ctx.call(meas + "_profile_swapped", fn["profile"], st2, st1, **kw)
        d = ctx.call(meas + "_value", fn["dist"], st1, st2, **ivk, **kw)
        ds = ctx.call(meas + "_value_swapped", fn["dist"], st2, st1, **ivk, **kw)
        res[meas] = (f, d)
        if meas == "ISI":
            ctx.check(_in01(f.y), "range:ISI_profile", lambda: "y=%r" % list(f.y))
            same = list(f.x) == list(g.x) and ps.all_close(list(g.y), ps.fl(f.y), 1e-12)
        elif meas == "SPIKE":
            ctx.check(_in01(f.y1) and _in01(f.y2), "range:SPIKE_profile",
                      lambda: "y1=%r y2=%r" % (list(f.y1), list(f.y2)))
            same = list(f.x) == list(g.x) and ps.all_close(list(g.y1), ps.fl(f.y1), 1e-12) \
                and ps.all_close(list(g.y2), ps.fl(f.y2), 1e-12)
        else:
            y = np.asarray(f.y, dtype=float)
            mp = np.asarray(f.mp, dtype=float)
            ctx.check(bool(np.all(np.isfinite(y)) and np.all(y >= 0) and np.all(y <= mp)),
                      "range:SYNC_profile", lambda: "y=%r mp=%r" % (list(y), list(mp)))
            same = list(f.x) == list(g.x) and list(f.y) == list(g.y) and \
                list(f.mp) == list(g.mp)
        ctx.check(same, "swap_symmetry:%s_profile" % meas,
                  lambda: "%s(a,b) x=%r ; %s(b,a) x=%r (values differ)"
                  % (meas, list(f.x), meas, list(g.x)))
        slack = SLACK
        if iv is not None:
            # integral / (tiny interval length) amplifies rounding of the integral
            ln = float(sum(b - a for a, b in M.intervals_list(case["interval"])))
            slack = max(SLACK, 1e-13 * (case["t1"] - case["t0"]) / ln)
        ctx.check(_in01([d], slack), "range:%s_value" % meas,
                  lambda: "%s value %r interval=%r" % (meas, d, case["interval"]))
        ctx.check(ps.close(ds, float(d), max(1e-12, slack)), "swap_symmetry:%s_value" % meas,
                  lambda: "%s(a,b)=%r %s(b,a)=%r" % (meas, d, meas, ds))
    kwo = M.kwargs_for("ORDER", case)
    o = ctx.call("order_value", pyspike.spike_train_order, st1, st2, **kwo)
    ctx.check(bool(np.isfinite(o)) and -1 - SLACK <= o <= 1 + SLACK, "range:order_value",
              lambda: "spike_train_order=%r" % (o,))
    op = ctx.call("order_profile", pyspike.spike_train_order_profile, st1, st2, **kwo)
    oy = np.asarray(op.y, dtype=float)
    omp = np.asarray(op.mp, dtype=float)
    ctx.check(bool(np.all(np.isfinite(oy)) and np.all(np.abs(oy) <= omp)),
              "range:order_profile", lambda: "y=%r mp=%r" % (list(oy), list(omp)))
    dn = ctx.call("directionality_norm", pyspike.spike_directionality, st1, st2,
                  normalize=True, **kwo)
    ctx.check(bool(np.isfinite(dn)) and -1 - SLACK <= dn <= 1 + SLACK,
              "range:directionality_normalized",
              lambda: "spike_directionality=%r" % (dn,))
    # the matrix forms of the normalised / un-normalised directionality and of the order
    # obey the same range (both list orders: an empty train may sit at either position)
    for lst, tag in (([st1, st2], "ab"), ([st2, st1], "ba")):
        for nrm in (True, False):
            dm = np.asarray(ctx.call("directionality_matrix", pyspike.spike_directionality_matrix,
                                     lst, normalize=nrm, **kwo), dtype=float)
            bound = 1 + SLACK if nrm else max(len(case["trains"][0]), len(case["trains"][1])) + SLACK
            ctx.check(dm.shape == (2, 2) and bool(np.all(np.isfinite(dm)))
                      and bool(np.all(np.abs(dm) <= bound)),
                      "range:directionality_matrix",
                      lambda: "spike_directionality_matrix(%s, normalize=%r)=%r"
                      % (tag, nrm, dm.tolist()))
    if case["identity"]:
        ctx.check(abs(float(res["ISI"][1])) <= SLACK, "identity:ISI",
                  lambda: "isi_distance(a,a)=%r" % (res["ISI"][1],))
        ctx.check(abs(float(res["SPIKE"][1])) <= SLACK, "identity:SPIKE",
                  lambda: "spike_distance(a,a)=%r" % (res["SPIKE"][1],))
        ctx.check(float(res["SYNC"][1]) == 1.0, "identity:SYNC",
                  lambda: "spike_sync(a,a)=%r interval=%r" % (res["SYNC"][1],
                                                              case["interval"]))
        for nm, fnm, kws, want in (
                ("isi_distance_matrix", pyspike.isi_distance_matrix, M.kwargs_for("ISI", case), 0.0),
                ("spike_distance_matrix", pyspike.spike_distance_matrix,
                 M.kwargs_for("SPIKE", case), 0.0),
                ("spike_sync_matrix", pyspike.spike_sync_matrix, M.kwargs_for("SYNC", case), 1.0)):
            mx = np.asarray(ctx.call(nm, fnm, [st1, st2], **ivk, **kws))
            ctx.check(mx.shape == (2, 2) and abs(float(mx[0, 1]) - want) <= SLACK
                      and abs(float(mx[1, 0]) - want) <= SLACK, "identity:" + nm,
                      lambda: "%s of a train and its equal copy: %r" % (nm, mx.tolist()))
        du = ctx.call("directionality_unnorm", pyspike.spike_directionality, st1, st2,
                      normalize=False, **kwo)
        ctx.check(float(du) == 0.0, "identity:directionality",
                  lambda: "spike_directionality(a,a,normalize=False)=%r" % (du,))
