"""C06 - multivariate results are the all-pairs aggregate and ignore list order."""
from fractions import Fraction as Fr

import numpy as np
from hypothesis import strategies as st

from .. import gen, oracle as O, ps, measures as M
from ..runner import HypPhase, EnumPhase
from .c04 import indices_for

PID = "C06"
RULE = ("cases = (list of 2..5 (thorough 2..8) valid trains on a dyadic grid with empty, "
        "repeated, related trains, measure in {ISI, SPIKE, SYNC}, MRTS, RI, max_tau, a "
        "permutation of the list, an `indices` selection for the matrices, backend). "
        "Non-trivial = N >= 3 and at least two pair profiles have different breakpoint "
        "sets. Distinct = distinct case JSON.")
ASSUMPTIONS = [
    "compiled=true cases execute the .pyx source (incl. the add routines) through the "
    "pyxshim transliteration",
    "bivariate profiles/values come from the same code (C01-C03 pin them against the "
    "definitions); the aggregation - recursive halving, the three add routines, 1/M, the "
    "pair enumeration of the matrix - is compared with an exact all-pairs model",
]


@st.composite
def _case(draw, tier):
    nmax = draw(st.sampled_from([5, 5, 5, 5, 5, 6, 7, 8])) if tier == "quick" else 8
    sz = dict(max_spikes=6 if tier == "quick" else 16)
    g = draw(gen.int_train_lists(2, nmax, related=draw(st.sampled_from([False, True])), **sz))
    c = gen.to_times(g)
    N = len(c["trains"])
    c["measure"] = draw(st.sampled_from(["ISI", "SPIKE", "SYNC"]))
    c["mrts"] = draw(gen.mrts_for(g, allow_auto=True))
    c["ri"] = draw(st.booleans())
    c["max_tau"] = draw(gen.maxtau_for(g))
    c["perm"] = list(draw(st.permutations(list(range(N)))))
    c["interval"] = draw(gen.interval_arg_for(g))
    c["reconcile_off"] = draw(st.booleans())
    c["indices"] = draw(indices_for(N))
    c["compiled"] = draw(st.booleans())
    c["alias_equal"] = draw(st.booleans())
    return c


def _enum(tier, shard, nshards):
    """three trains on {0..4}: all triples, ISI and SPIKE and SYNC"""
    G = 4
    n = 1 << (G + 1)
    idx = 0
    for m1 in range(n):
        for m2 in range(n):
            for m3 in range(n):
                idx += 1
                if idx % nshards != shard:
                    continue
                trs = [[float(k) for k in gen.subset_of_mask(m, G)] for m in (m1, m2, m3)]
                yield dict(t0=0.0, t1=float(G), trains=trs,
                           measure=("ISI", "SPIKE", "SYNC")[idx % 3], mrts=None, ri=False,
                           max_tau=None, perm=[2, 0, 1], indices=[2, 0],
                           compiled=bool(idx & 1), interval=None)


PHASES = [
    HypPhase("dyadic", _case, dict(quick=4000, thorough=30000)),
    EnumPhase("grid4x3", _enum,
              lambda tier: "all ordered triples of subsets of {0..4} on [0,4], measure "
                           "cycling ISI/SPIKE/SYNC, permutation [2,0,1], indices [2,0]"),
]


def _pair_bps(case):
    trs, T0, T1 = ps.fr_trains(case)
    N = len(trs)
    sets = set()
    for x in range(N):
        for y in range(x + 1, N):
            sets.add(tuple(O.breakpoints([trs[x], trs[y]], T0, T1)))
    return sets


def classify(case):
    N = len(case["trains"])
    labels = ["measure:" + case["measure"], "N=%d" % N,
              "compiled" if case["compiled"] else "fallback"]
    if case["mrts"] == "auto":
        labels.append("mrts_auto")
    if case["ri"]:
        labels.append("RI")
    if len(_pair_bps(case)) >= 2:
        labels.append("pair_profiles_differ_in_breakpoints")
    labels += sorted(ps.train_kinds(case) & {"empty_train", "identical_trains",
                                             "shared_spike"})
    if case["perm"] != sorted(case["perm"]):
        labels.append("nontrivial_permutation")
    return labels


def nontrivial(case):
    return len(case["trains"]) >= 3 and len(_pair_bps(case)) >= 2


def run_case(case, ctx):
    ctx.set_backend(case["compiled"])
    sts = ps.trains(case)
    N = len(sts)
    meas = case["measure"]
    fn = M.funcs(meas)
    kw = M.kwargs_for(meas, case)
    tol = 1e-10
    pairs = [(x, y) for x in range(N) for y in range(x + 1, N)]
    pprof = {}
    pval = {}
    pkw = dict(kw)
    auto = case["mrts"] == "auto"
    if auto:
        # 'auto' in a multivariate call is the threshold pooled over ALL trains
        # (C15); the bivariate reference values are computed with that number
        trs_, T0_, T1_ = ps.fr_trains(case)
        pkw["MRTS"] = O.default_thresh(trs_, T0_, T1_)
    tol = 1e-9 if auto else 1e-10
    for (x, y) in pairs:
        pprof[(x, y)] = M.model_of(ctx.call("pair_profile", fn["profile"], sts[x], sts[y], **pkw))
        pval[(x, y)] = ctx.call("pair_value", fn["dist"], sts[x], sts[y], **pkw)
    F = ctx.call("multi_profile", fn["profile"], sts, **kw)
    if fn["kind"] in ("pwc", "pwl"):
        # first thing a user may do with the fresh profile object: evaluate it at single
        # times (at spike times: the mean of the one-sided limits) - before anything has
        # looked at its arrays
        some = next(iter(pprof.values()))
        ts = list(some.x[1:-1][:2]) + [(some.x[0] + some.x[1]) / 2, some.x[0], some.x[-1]]
        for t in ts:
            got = ctx.call("multi_profile_eval", F, float(t))
            e = sum(p.value(t) for p in pprof.values()) / len(pairs)
            ctx.check(ps.close(float(got), e, tol), "mean_of_pair_profiles_at_a_time",
                      lambda: "%s multivariate profile evaluated at t=%r (fresh object): %r, "
                              "mean of the %d pair profiles there: %r"
                      % (meas, float(t), float(got), len(pairs), float(e)))
    V = ctx.call("multi_value", fn["dist"], sts, **kw)
    if case.get("reconcile_off") and not auto:
        # valid input handed over with Reconcile=False (also with one object sitting at
        # several positions of the list): the same aggregate
        Vr = ctx.call("multi_value_reconcile_off", fn["dist"], sts, Reconcile=False, **kw)
        ctx.check(ps.close(Vr, Fr(float(V)), tol), "reconcile_off_changes_value",
                  lambda: "%s(list)=%r but with Reconcile=False %r (alias_equal=%r)"
                  % (meas, float(V), float(Vr), case.get("alias_equal")))
        Fr_ = ctx.call("multi_profile_reconcile_off", fn["profile"], sts, Reconcile=False, **kw)
        ctx.check(list(Fr_.x) == list(F.x) and
                  all(ps.all_close(list(getattr(Fr_, a_)), [float(v) for v in getattr(F, a_)], tol)
                      for a_ in ("y", "y1", "y2", "mp") if hasattr(F, a_)),
                  "reconcile_off_changes_profile",
                  lambda: "%s profile of the list differs with Reconcile=False" % meas)
    perm = case["perm"]
    psts = [sts[k] for k in perm]
    Fp = ctx.call("multi_profile_permuted", fn["profile"], psts, **kw)
    Vp = ctx.call("multi_value_permuted", fn["dist"], psts, **kw)
    npairs = len(pairs)

    if fn["kind"] in ("pwc", "pwl"):
        Fm = M.model_of(F)
        xs = sorted(set(t for p in pprof.values() for t in p.x))
        ctx.check(Fm.x == xs, "breakpoints_union",
                  lambda: "multivariate x=%r, union of pair breakpoints=%r"
                  % (ps.fl(Fm.x), ps.fl(xs)))
        for k in range(len(xs) - 1):
            mid = (xs[k] + xs[k + 1]) / 2
            for (t, side) in ((xs[k], "+"), (mid, "+"), (xs[k + 1], "-")):
                e = sum(p.limit(t, side) for p in pprof.values()) / npairs
                g = Fm.limit(t, side)
                ctx.check(ps.close(float(g), e, tol), "mean_of_pair_profiles",
                          lambda: "%s multivariate profile at t=%r%s is %r, mean of the "
                                  "%d pair profiles is %r"
                          % (meas, float(t), side, float(g), npairs, float(e)))
        e = sum(Fr(float(v)) for v in pval.values()) / npairs
        ctx.check(ps.close(V, e, tol), "mean_of_pair_distances",
                  lambda: "%s multivariate distance %r, mean of pair distances %r"
                  % (meas, float(V), float(e)))
        ctx.check(list(Fp.x) == list(F.x), "permutation_changes_breakpoints",
                  lambda: "x=%r permuted x=%r" % (list(F.x), list(Fp.x)))
        Fpm = M.model_of(Fp)
        ctx.check(ps.all_close(ps.fl(Fpm.yl), Fm.yl, tol) and
                  ps.all_close(ps.fl(Fpm.yr), Fm.yr, tol), "permutation_changes_profile",
                  lambda: "perm=%r: %r vs %r" % (perm, ps.fl(Fm.yl), ps.fl(Fpm.yl)))
        ctx.check(ps.close(Vp, Fr(float(V)), tol), "permutation_changes_value",
                  lambda: "perm=%r: %r vs %r" % (perm, float(V), float(Vp)))
    else:
        ev = {}
        for p in pprof.values():
            for t, (y, mp) in p.ev.items():
                cur = ev.get(t, (0, 0))
                ev[t] = (cur[0] + y, cur[1] + mp)
        Fm = M.model_of(F)
        ctx.check(Fm.ev == ev and len(F.x) == len(ev) + 2, "eventwise_sum_of_pairs",
                  lambda: "multivariate SYNC profile x=%r y=%r mp=%r, event-wise sums %r"
                  % (list(F.x), list(F.y), list(F.mp),
                     sorted((float(t), float(a), float(b)) for t, (a, b) in ev.items())))
        ty = sum(v[0] for v in ev.values())
        tmp = sum(v[1] for v in ev.values())
        e = ty / tmp if tmp > 0 else Fr(1)
        ctx.check(ps.close(V, e, tol), "total_ratio",
                  lambda: "multivariate spike_sync %r, total coincidences/multiplicity %r"
                  % (float(V), float(e)))
        ctx.check(M.model_of(Fp).ev == ev and list(Fp.x) == list(F.x),
                  "permutation_changes_profile", lambda: "perm=%r" % (perm,))
        ctx.check(ps.close(Vp, Fr(float(V)), tol), "permutation_changes_value",
                  lambda: "perm=%r: %r vs %r" % (perm, float(V), float(Vp)))

    # the same aggregate over an averaging sub-interval
    iv = case.get("interval")
    if iv is not None:
        ivt = gen.to_interval(iv)
        Vi = ctx.call("multi_value_interval", fn["dist"], sts, interval=ivt, **kw)
        if fn["kind"] in ("pwc", "pwl"):
            e = sum(Fr(float(ctx.call("pair_value_interval", fn["dist"], sts[x], sts[y],
                                      interval=ivt, **pkw))) for (x, y) in pairs) / npairs
            ctx.check(ps.close(Vi, e, max(tol, 1e-9)), "mean_of_pair_distances_interval",
                      lambda: "%s multivariate distance over %r: %r, mean of pair distances %r"
                      % (meas, iv, float(Vi), float(e)))
        else:
            ty = tmp = Fr(0)
            for p_ in pprof.values():
                a_, b_ = p_.integral(M.intervals_list(iv))
                ty += a_
                tmp += b_
            e = ty / tmp if tmp > 0 else Fr(1)
            ctx.check(ps.close(Vi, e, tol), "total_ratio_interval",
                      lambda: "multivariate spike_sync over %r: %r, total coincidences / "
                              "multiplicity of the pair profiles inside it: %r"
                      % (iv, float(Vi), float(e)))

    # a selection through `indices` (valid input, reconciliation on or off): the profile
    # is the aggregate of exactly the selected pairs
    if not auto and case["indices"] is not None:
        sel = list(case["indices"])
        rk = {"Reconcile": False} if case.get("reconcile_off") else {}
        Fs = ctx.call("multi_profile_indices", fn["profile"], sts, indices=sel, **rk, **kw)
        spairs = [(min(sel[a], sel[b]), max(sel[a], sel[b])) for a in range(len(sel))
                  for b in range(a + 1, len(sel))]
        if fn["kind"] in ("pwc", "pwl"):
            Fsm = M.model_of(Fs)
            xs = sorted(set(t for pr in spairs for t in pprof[pr].x))
            ctx.check(Fsm.x == xs, "breakpoints_union_indices",
                      lambda: "indices=%r%s: x=%r, union over the selected pairs %r"
                      % (sel, rk, ps.fl(Fsm.x), ps.fl(xs)))
            for k in range(len(xs) - 1):
                mid = (xs[k] + xs[k + 1]) / 2
                e = sum(pprof[pr].limit(mid, "+") for pr in spairs) / len(spairs)
                ctx.check(ps.close(float(Fsm.limit(mid, "+")), e, tol),
                          "mean_of_selected_pair_profiles",
                          lambda: "%s profile with indices=%r%s at t=%r: %r, mean of the "
                                  "selected pairs %r" % (meas, sel, rk, float(mid),
                                                         float(Fsm.limit(mid, "+")), float(e)))
        else:
            ev = {}
            for pr in spairs:
                for t, (y, mp) in pprof[pr].ev.items():
                    cur = ev.get(t, (0, 0))
                    ev[t] = (cur[0] + y, cur[1] + mp)
            ctx.check(M.model_of(Fs).ev == ev, "eventwise_sum_of_selected_pairs",
                      lambda: "SYNC profile with indices=%r%s differs from the sums over "
                              "the selected pairs" % (sel, rk))

    # 'auto' with a selection: which trains are pooled for the threshold is not part of
    # the statement, so no reference values - but value and profile of one and the same
    # call must still fit together (value = average / totals ratio of that profile)
    if auto and case["indices"] is not None:
        sel = list(case["indices"])
        Fs = ctx.call("multi_profile_indices_auto", fn["profile"], sts, indices=sel, **kw)
        Vs = ctx.call("multi_value_indices_auto", fn["dist"], sts, indices=sel, **kw)
        if fn["kind"] in ("pwc", "pwl"):
            e = ctx.call("profile.avrg", Fs.avrg)
            ok = ps.close(Vs, Fr(float(e)), 1e-9) if float(e) == float(e) else float(Vs) != float(Vs)
        else:
            y_ = sum(Fr(float(v)) for v in list(Fs.y)[1:-1])
            m_ = sum(Fr(float(v)) for v in list(Fs.mp)[1:-1])
            e = y_ / m_ if m_ > 0 else Fr(1)
            ok = ps.close(Vs, e, 1e-12)
        ctx.check(ok, "value_vs_own_profile_auto_indices",
                  lambda: "%s with indices=%r and MRTS='auto': value %r, but the profile of the "
                          "same call averages to %r" % (meas, sel, float(Vs), float(e)))

    # the same trains asked first with OTHER keyword values (results ignored): what the
    # matrix call below returns must depend on its own keywords only
    if fn["matrix"] is not None:
        span = case["t1"] - case["t0"]
        for key in fn["keys"]:
            alt = dict(kw)
            if key == "max_tau":
                alt["max_tau"] = None if kw.get("max_tau") else span / 8
            elif key == "MRTS":
                alt["MRTS"] = 0 if kw.get("MRTS") else span / 4
            else:
                alt[key] = not kw.get(key, False)
            ctx.call("matrix_other_keywords_first", fn["matrix"], sts, **alt)

    # matrices ('auto' with `indices` is not asserted: pooling is unspecified)
    for ind in ((None,) if auto else (None, case["indices"])):
        sel = list(range(N)) if ind is None else list(ind)
        ikw = {} if ind is None else {"indices": list(ind)}
        Mx = np.asarray(ctx.call("matrix", fn["matrix"], sts, **ikw, **kw))
        ctx.check(Mx.shape == (len(sel), len(sel)), "matrix_shape",
                  lambda: "shape %r for %d selected trains" % (Mx.shape, len(sel)))
        diag = 1.0 if meas == "SYNC" else 0.0
        for a in range(len(sel)):
            ctx.check(abs(Mx[a, a] - diag) <= 1e-12, "matrix_diagonal",
                      lambda: "M[%d,%d]=%r" % (a, a, Mx[a, a]))
            for b in range(a + 1, len(sel)):
                ctx.check(abs(Mx[a, b] - Mx[b, a]) <= 1e-12, "matrix_symmetric",
                          lambda: "M[%d,%d]=%r M[%d,%d]=%r" % (a, b, Mx[a, b], b, a, Mx[b, a]))
                key = (min(sel[a], sel[b]), max(sel[a], sel[b]))
                ctx.check(ps.close(Mx[a, b], Fr(float(pval[key])), tol), "matrix_entry",
                          lambda: "M[%d,%d]=%r but %s(train %d, train %d)=%r (indices=%r)"
                          % (a, b, Mx[a, b], meas, sel[a], sel[b], float(pval[key]), ind))
