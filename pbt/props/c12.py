"""C12 - compiled backend and pure-Python fallback compute the same results."""
from fractions import Fraction as Fr

import numpy as np
from hypothesis import strategies as st

from .. import gen, oracle as O, ps
from ..pyxshim import ShimOutOfBounds, shim_gap
from ..env import HarnessError
from ..runner import HypPhase, EnumPhase, watchdog
from .c10 import pw_arrays
from .c11 import df_arrays

PID = "C12"
RULE = ("cases = argument tuples for DIRECT calls of the 15 backend routine pairs (not via "
        "the public API): (a) spike arrays of two valid trains (dyadic grid and arbitrary "
        "doubles; empty trains are passed as PySpike passes them: [t_start, t_end] to the "
        "ISI/SPIKE kernels, empty arrays to the coincidence kernels), t_start, t_end, MRTS, "
        "RI, max_tau - 12 pairs incl. the three single-pass distance routines vs averaging "
        "the Python profile, and get_tau for every (i, j) incl. -1; (b) function arrays "
        "for the three add routines. Non-trivial = both spike arrays have >= 2 entries, or "
        "the case is of a degenerate class (empty, one spike, spike on an edge); for add "
        "cases: different interior breakpoints. Distinct = distinct case JSON.")
ASSUMPTIONS = [
    "the 'compiled' side is the .pyx source executed through the pyxshim transliteration "
    "(IEEE doubles, C division semantics, bounds-checked indexing, NaN-filled np.empty); "
    "Cython's code generation, the C compiler and a built .so are out of reach here",
    "differential oracle: same shapes, values within 1e-12, NaN never equal, same "
    "exception-or-not, no out-of-bounds access",
]

ROUTINES = ["isi_profile", "spike_profile", "coincidence_profile", "coincidence_single",
            "isi_distance", "spike_distance", "coincidence_value", "get_tau",
            "add_pwc", "add_pwl", "add_discrete", "order_profile", "order_value",
            "directionality_profiles", "directionality_value"]


@st.composite
def _spikes_dyadic(draw, tier):
    g = draw(gen.int_train_lists(2, 2, related=draw(st.sampled_from([False, True])),
                                 **gen.sizes(tier)))
    c = gen.to_times(g)
    c["kind"] = "spikes"
    c["mrts"] = draw(gen.mrts_for(g, allow_none=False))
    c["ri"] = draw(st.booleans())
    c["max_tau"] = draw(gen.maxtau_for(g, allow_none=False))
    c["domain"] = "dyadic"
    return c


@st.composite
def _spikes_float(draw, tier):
    c = draw(gen.float_train_lists(2, 2, max_spikes=8 if tier == "quick" else 20))
    ln = c["t1"] - c["t0"]
    c["kind"] = "spikes"
    m = draw(gen.float_mrts(ln))
    c["mrts"] = 0.0 if (m is None or m == "auto") else m
    c["ri"] = draw(st.booleans())
    c["max_tau"] = draw(st.one_of(st.just(0.0),
                                  st.integers(1, 1 << 20).map(lambda k: ln * k / (1 << 20))))
    c["domain"] = "float"
    return c


@st.composite
def _adds(draw, tier):
    q = draw(st.sampled_from([1, 2, 8]))
    k0 = draw(st.integers(-8 * q, 8 * q))
    n = draw(st.integers(2, 20 if tier == "quick" else 50))
    pool = sorted(set(draw(st.lists(st.integers(1, max(1, n - 1)), min_size=1, max_size=5))))
    which = draw(st.sampled_from(["pwc", "pwl", "df"]))
    mp = 7 if tier == "quick" else 16
    if which == "df":
        f = draw(df_arrays(q, k0, n, pool, mp))
        g = draw(df_arrays(q, k0, n, pool, mp))
    else:
        f = draw(pw_arrays(which, q, k0, n, mp, pool))
        g = draw(pw_arrays(which, q, k0, n, mp, pool))
    return dict(kind="add", which=which, f=f, g=g)


def _enum(tier, shard, nshards):
    G = 6
    n = 1 << (G + 1)
    for m1 in range(shard, n, nshards):
        a = [float(k) for k in gen.subset_of_mask(m1, G)]
        for m2 in range(n):
            b = [float(k) for k in gen.subset_of_mask(m2, G)]
            for (mrts, ri, mt) in ((0.0, False, 0.0), (2.0, True, 1.0), (5.0, False, 0.5)):
                yield dict(kind="spikes", t0=0.0, t1=float(G), trains=[a, b], mrts=mrts,
                           ri=ri, max_tau=mt, domain="dyadic")


PHASES = [
    HypPhase("spikes_dyadic", _spikes_dyadic, dict(quick=5000, thorough=50000)),
    HypPhase("spikes_float", _spikes_float, dict(quick=2000, thorough=20000)),
    HypPhase("adds", _adds, dict(quick=4000, thorough=30000)),
    EnumPhase("grid6", _enum,
              lambda tier: "all ordered pairs of subsets of {0..6} on [0,6] x (MRTS,RI,"
                           "max_tau) in {(0,F,0),(2,T,1),(5,F,.5)}; all 12 spike routines"),
]


def classify(case):
    if case["kind"] == "add":
        return ["add:" + case["which"]]
    labels = sorted(ps.train_kinds(case))
    labels.append("domain:" + case["domain"])
    a, b = case["trains"]
    if len(a) >= 2 and len(b) >= 2:
        labels.append("both_trains_ge_2_spikes")
    return labels


def nontrivial(case):
    if case["kind"] == "add":
        return case["f"]["x"][1:-1] != case["g"]["x"][1:-1]
    a, b = case["trains"]
    if len(a) >= 2 and len(b) >= 2:
        return True
    return bool(ps.train_kinds(case) & {"empty_train", "one_spike_train",
                                        "spike_on_t_start", "spike_on_t_end"})


def _run(fn, *a):
    """(kind, payload): ('ok', result) | ('exc', type name)"""
    try:
        with watchdog():
            return ("ok", fn(*a))
    except ShimOutOfBounds as e:
        return ("oob", str(e))
    except Exception as e:
        if shim_gap(e):
            raise HarnessError("the transliterated .pyx code uses an undefined name (%s): a "
                               "construct outside the shim's Cython subset, or a file Cython "
                               "would not compile" % e)
        return ("exc", type(e).__name__ + ": " + str(e)[:80])


def _flat(res):
    if isinstance(res, tuple):
        return [np.asarray(r, dtype=float).ravel() for r in res]
    return [np.asarray(res, dtype=float).ravel()]


def _same(a, b, tol=1e-12):
    A, B = _flat(a), _flat(b)
    if len(A) != len(B):
        return "different number of outputs"
    for k, (x, y) in enumerate(zip(A, B)):
        if x.shape != y.shape:
            return "output %d: shapes %r vs %r" % (k, x.shape, y.shape)
        if x.size == 0:
            continue
        if not (np.all(np.isfinite(x)) and np.all(np.isfinite(y))):
            if not np.array_equal(np.isnan(x), np.isnan(y)) or np.any(np.isnan(x)):
                return "output %d: non-finite values %r vs %r" % (k, x.tolist(), y.tolist())
        bad = np.abs(x - y) > tol * np.maximum(1.0, np.abs(y))
        if np.any(bad):
            i = int(np.argmax(bad))
            return "output %d index %d: python %r, pyx %r" % (k, i, float(x[i]), float(y[i]))
    return ""


def _run2(ctx, name, case, fpy, fcy, args, desc, post=None):
    """runs both copies on private copies of the arguments and also checks that
    neither of them writes into its arguments (the .pyx routines never do; a
    Python copy that does differs observably on the next use of the object)"""
    a1 = [v.copy() if isinstance(v, np.ndarray) else v for v in args]
    a2 = [v.copy() if isinstance(v, np.ndarray) else v for v in args]
    py = _run(fpy, *a1)
    cy = _run(fcy, *a2)
    for which, used in (("python", a1), ("pyx", a2)):
        for k, (u, o) in enumerate(zip(used, args)):
            if isinstance(o, np.ndarray) and not np.array_equal(u, o, equal_nan=True):
                ctx.fail("argument_modified:" + name,
                         "%s: the %s routine changed its argument %d from %r to %r; %s"
                         % (name, which, k, o.tolist(), u.tolist(), desc))
    if post is not None:
        # `post` drops the two framing entries of a discrete profile before the semantic
        # comparison; but "the same results" includes them: whatever convention the
        # library has for these entries, both copies must follow it
        if py[0] == "ok" and cy[0] == "ok":
            msg = _same(py[1], cy[1])
            if msg and not _same(post(py)[1], post(cy)[1]):
                ctx.fail("differs_in_framing_entries:" + name,
                         "%s: %s (python %r, pyx %r); %s"
                         % (name, msg, [np.asarray(v).tolist() for v in py[1]],
                            [np.asarray(v).tolist() for v in cy[1]], desc))
        py, cy = post(py), post(cy)
    _compare(ctx, name, case, py, cy, desc)
    return py, cy


def _compare(ctx, name, case, py, cy, desc):
    ctx.notes["routine:" + name] += 1
    if nontrivial(case):
        ctx.notes["nontrivial:" + name] += 1
    if cy[0] == "oob":
        ctx.fail("out_of_bounds:" + name, "%s: pyx indexes out of bounds (%s) %s"
                 % (name, cy[1], desc))
    if py[0] != cy[0]:
        ctx.fail("exception_mismatch:" + name, "%s: python -> %s %r, pyx -> %s %r; %s"
                 % (name, py[0], py[1] if py[0] != "ok" else "", cy[0],
                    cy[1] if cy[0] != "ok" else "", desc))
    if py[0] == "ok":
        msg = _same(py[1], cy[1])
        if msg:
            ctx.fail("differs:" + name, "%s: %s; %s" % (name, msg, desc))


def run_case(case, ctx):
    import pyspike.cython.python_backend as pb
    import pyspike.cython.directionality_python_backend as db
    import pyspike
    S = ctx.shim
    if not S.ok:
        from ..env import HarnessError
        raise HarnessError("C12 compares the Python fallback with the .pyx source; the .pyx "
                           "files could not be transliterated: " + S.error)
    ctx.set_backend(False)
    if case["kind"] == "add":
        f, g = case["f"], case["g"]
        ar = lambda d, k: np.array(d[k], dtype=float)
        dsc = "f.x=%r g.x=%r" % (f["x"], g["x"])
        if case["which"] == "pwc":
            a = (ar(f, "x"), ar(f, "y"), ar(g, "x"), ar(g, "y"))
            _run2(ctx, "add_pwc", case, pb.add_piece_wise_const_python,
                  S.fn("cython_add", "add_piece_wise_const_cython"), a, dsc)
        elif case["which"] == "pwl":
            a = (ar(f, "x"), ar(f, "y1"), ar(f, "y2"), ar(g, "x"), ar(g, "y1"), ar(g, "y2"))
            _run2(ctx, "add_pwl", case, pb.add_piece_wise_lin_python,
                  S.fn("cython_add", "add_piece_wise_lin_cython"), a, dsc)
        else:
            a = (ar(f, "x"), ar(f, "y"), ar(f, "mp"), ar(g, "x"), ar(g, "y"), ar(g, "mp"))

            def strip(r):
                # the values of the two framing entries "never count": compare the rest
                if r[0] != "ok":
                    return r
                return ("ok", tuple(np.asarray(v)[1:-1] if k else np.asarray(v)
                                    for k, v in enumerate(r[1])))
            _run2(ctx, "add_discrete", case, pb.add_discrete_function_python,
                  S.fn("cython_add", "add_discrete_function_cython"), a, dsc, strip)
        return
    t0, t1 = case["t0"], case["t1"]
    sa = np.array(case["trains"][0], dtype=float)
    sb = np.array(case["trains"][1], dtype=float)
    ea = sa if len(sa) else np.array([t0, t1])
    eb = sb if len(sb) else np.array([t0, t1])
    m, ri, mt = float(case["mrts"]), bool(case["ri"]), float(case["max_tau"])
    desc = "s1=%r s2=%r [%r,%r] MRTS=%r RI=%r max_tau=%r" % (
        sa.tolist(), sb.tolist(), t0, t1, m, ri, mt)
    c = lambda v: v.copy()
    P, D, R = "cython_profiles", "cython_distances", "cython_directionality"

    py, cy = _run2(ctx, "isi_profile", case, pb.isi_distance_python,
                   S.fn(P, "isi_profile_cython"), (ea, eb, t0, t1, m), desc)
    if py[0] == "ok":
        avg = _run(lambda: pyspike.PieceWiseConstFunc(*py[1]).avrg())
        cy = _run(S.fn(D, "isi_distance_cython"), c(ea), c(eb), t0, t1, m)
        _compare(ctx, "isi_distance", case, avg, cy, desc)

    py, cy = _run2(ctx, "spike_profile", case, pb.spike_distance_python,
                   S.fn(P, "spike_profile_cython"), (ea, eb, t0, t1, m, ri), desc)
    if py[0] == "ok":
        avg = _run(lambda: pyspike.PieceWiseLinFunc(*py[1]).avrg())
        cy = _run(S.fn(D, "spike_distance_cython"), c(ea), c(eb), t0, t1, m, ri)
        _compare(ctx, "spike_distance", case, avg, cy, desc)

    def interior(r):
        # discrete profiles: times fully, values / multiplicities of the events only
        # (the two framing entries "never count" and are not part of any property)
        if r[0] != "ok":
            return r
        return ("ok", tuple(np.asarray(v)[1:-1] if k else np.asarray(v)
                            for k, v in enumerate(r[1])))
    full = {}

    def keep_full(r):
        full["last"] = r
        return interior(r)
    py, cy = _run2(ctx, "coincidence_profile", case, pb.coincidence_python,
                   S.fn(P, "coincidence_profile_cython"), (sa, sb, t0, t1, mt, m), desc,
                   interior)
    if py[0] == "ok":
        tot = ("ok", (float(np.sum(py[1][1])), float(np.sum(py[1][2]))))
        cy = _run(S.fn(D, "coincidence_value_cython"), c(sa), c(sb), t0, t1, mt, m)
        _compare(ctx, "coincidence_value", case, tot, cy, desc)

    for (x, y) in ((sa, sb), (sb, sa)):
        py = _run(pb.coincidence_single_python, c(x), c(y), t0, t1, mt, m)
        cy = _run(S.fn(P, "coincidence_single_profile_cython"), c(x), c(y), t0, t1, mt, m)
        _compare(ctx, "coincidence_single", case, py, cy, desc)

    # get_tau for every index pair the kernels can ask for (and -1 markers)
    gt = S.fn("cython_get_tau", "get_tau")
    T = t1 - t0
    tm = min(T, 2 * mt) if mt > 0 else T
    pairs = [(i, j) for i in range(-1, len(sa)) for j in range(-1, len(sb))
             if not (i < 0 and j < 0)]
    if len(pairs) > 40:
        pairs = pairs[:20] + pairs[-20:]
    for (i, j) in pairs:
        py = _run(pb.get_tau, c(sa), c(sb), i, j, tm, m)
        cy = _run(gt, c(sa), c(sb), i, j, tm, m)
        _compare(ctx, "get_tau", case, py, cy, desc + " i=%d j=%d" % (i, j))

    py, cy = _run2(ctx, "order_profile", case, db.spike_train_order_profile_python,
                   S.fn(R, "spike_train_order_profile_cython"), (sa, sb, t0, t1, mt, m), desc,
                   interior)
    if py[0] == "ok":
        tot = ("ok", (float(np.sum(py[1][1])), float(np.sum(py[1][2]))))
        cy = _run(S.fn(R, "spike_train_order_cython"), c(sa), c(sb), t0, t1, mt, m)
        _compare(ctx, "order_value", case, tot, cy, desc)

    py = _run(db.spike_directionality_profile_python, c(sa), c(sb), t0, t1, mt, m)
    cy = _run(S.fn(R, "spike_directionality_profiles_cython"), c(sa), c(sb), t0, t1, mt, m)
    _compare(ctx, "directionality_profiles", case, py, cy, desc)
    if py[0] == "ok":
        tot = ("ok", float(np.sum(py[1][0])))
        cy = _run(S.fn(R, "spike_directionality_cython"), c(sa), c(sb), t0, t1, mt, m)
        _compare(ctx, "directionality_value", case, tot, cy, desc)


def post_check(notes, tier):
    need = 200 if tier == "quick" else 2000
    low = [r for r in ROUTINES if notes.get("nontrivial:" + r, 0) < need]
    if low:
        return "routines with fewer than %d non-trivial differential cases: %r" % (need, low)
    return ""
