"""C09 - adding piecewise profiles is pointwise addition on the merged support."""
from fractions import Fraction as Fr

import numpy as np
from hypothesis import strategies as st
from hypothesis.stateful import rule, precondition, initialize

from .. import gen, oracle as O, ps, hist
from ..runner import HypPhase, EnumPhase, MachinePhase
from .c10 import pw_arrays

PID = "C09"
RULE = ("two kinds of cases. (1) histories from a Hypothesis rule-based state machine over "
        "piecewise-constant and piecewise-linear functions on one common support: rules "
        "new_function (breakpoint styles: random / single piece / subset of a shared pool / "
        "only early / only late points), add(dst, src) incl. dst is src, mul_scalar, copy, "
        "average_profile, switch backend; after every step EVERY live object is compared "
        "with its exact model (breakpoints, one-sided limits, integral). (2) stateless "
        "pairs (f, g, c) for volume. Non-trivial history = >= 2 adds of operands with "
        "different interior breakpoints that exercise >= 2 of the 3 tail branches (which "
        "operand runs out of interior breakpoints first / simultaneously); non-trivial "
        "pair = different interior breakpoints. Distinct = distinct case JSON.")
ASSUMPTIONS = [
    "compiled backend = the .pyx add routines through the pyxshim transliteration",
    "oracle = pointwise linear combination on the union of breakpoints over Fractions; "
    "breakpoints compared exactly, values to 1e-12 relative to the largest magnitude that "
    "entered the combination",
]

TOL = 1e-12


# ---------------------------------------------------------------------------
# interpreter (shared by the machine, the stateless pairs and the replay)
# ---------------------------------------------------------------------------
class State(object):
    def __init__(self):
        self.slots = []      # dicts: real, model, kind, scale
        self.compiled = False
        self.adds = []       # (different_bps, tail_class)
        self.blind = False   # True: nothing looks at any object until ["blind", False]


def new_state():
    return State()


def _mk(fd):
    import pyspike
    if fd.get("as_int"):
        # constructed from Python ints (integer breakpoints and values): the
        # objects then hold integer arrays
        xs = [int(v) for v in fd["x"]]
        if fd["kind"] == "pwc":
            real = pyspike.PieceWiseConstFunc(xs, [int(v) for v in fd["y"]])
            model = O.PW(xs, [int(v) for v in fd["y"]])
            mag = max([1.0] + [abs(v) for v in fd["y"]])
        else:
            real = pyspike.PieceWiseLinFunc(xs, [int(v) for v in fd["y1"]],
                                            [int(v) for v in fd["y2"]])
            model = O.PW(xs, [int(v) for v in fd["y1"]], [int(v) for v in fd["y2"]])
            mag = max([1.0] + [abs(v) for v in fd["y1"] + fd["y2"]])
        return dict(real=real, model=model, kind=fd["kind"], scale=mag)
    if fd["kind"] == "pwc":
        real = pyspike.PieceWiseConstFunc(np.array(fd["x"]), np.array(fd["y"]))
        model = O.PW(fd["x"], fd["y"])
        mag = max([1.0] + [abs(v) for v in fd["y"]])
    else:
        real = pyspike.PieceWiseLinFunc(np.array(fd["x"]), np.array(fd["y1"]),
                                        np.array(fd["y2"]))
        model = O.PW(fd["x"], fd["y1"], fd["y2"])
        mag = max([1.0] + [abs(v) for v in fd["y1"] + fd["y2"]])
    return dict(real=real, model=model, kind=fd["kind"], scale=mag)


def _tail_class(xa, xb):
    ia, ib = xa[1:-1], xb[1:-1]
    la = ia[-1] if ia else None
    lb = ib[-1] if ib else None
    if la == lb:
        return "simultaneous"
    if lb is None or (la is not None and la > lb):
        return "tail_of_receiver"
    return "tail_of_operand"


def _snapshot(slot):
    r = slot["real"]
    if slot["kind"] == "pwc":
        return (r.x.tobytes(), r.y.tobytes())
    return (r.x.tobytes(), r.y1.tobytes(), r.y2.tobytes())


def _check_slot(ctx, k, slot, what):
    r, m = slot["real"], slot["model"]
    tol = TOL * slot["scale"]
    ctx.check(len(r.x) == len(m.x) and ps.exact_eq(r.x, m.x), "breakpoints",
              lambda: "%s: object %d has x=%r, union of breakpoints is %r"
              % (what, k, list(r.x), ps.fl(m.x)))
    if slot["kind"] == "pwc":
        ok = len(r.y) == len(m.yl) and all(abs(float(a) - float(b)) <= tol
                                           for a, b in zip(r.y, m.yl))
        ctx.check(ok, "values", lambda: "%s: object %d y=%r expected %r (x=%r)"
                  % (what, k, list(r.y), ps.fl(m.yl), ps.fl(m.x)))
    else:
        ok1 = len(r.y1) == len(m.yl) and all(abs(float(a) - float(b)) <= tol
                                             for a, b in zip(r.y1, m.yl))
        ok2 = len(r.y2) == len(m.yr) and all(abs(float(a) - float(b)) <= tol
                                             for a, b in zip(r.y2, m.yr))
        ctx.check(ok1, "right_limits", lambda: "%s: object %d y1=%r expected %r (x=%r)"
                  % (what, k, list(r.y1), ps.fl(m.yl), ps.fl(m.x)))
        ctx.check(ok2, "left_limits", lambda: "%s: object %d y2=%r expected %r (x=%r)"
                  % (what, k, list(r.y2), ps.fl(m.yr), ps.fl(m.x)))
    xs = np.asarray(r.x, dtype=float)
    ctx.check(bool(np.all(np.diff(xs) > 0)), "breakpoints_not_increasing",
              lambda: "%s: object %d x=%r" % (what, k, list(xs)))
    got = ctx.call("integral", r.integral)
    span = float(m.x[-1] - m.x[0])
    ctx.check(abs(float(got) - float(m.integral())) <= tol * max(1.0, span) * 4, "integral",
              lambda: "%s: object %d integral %r expected %r"
              % (what, k, float(got), float(m.integral())))


def _check_all(ctx, state, what):
    for k, slot in enumerate(state.slots):
        _check_slot(ctx, k, slot, what)


def _check_all_unless_blind(ctx, state, what):
    if not state.blind:
        _check_all(ctx, state, what)


def apply_op(state, op, ctx):
    name = op[0]
    S = state.slots
    if name == "backend":
        state.compiled = bool(op[1])
        return
    if name == "blind":
        # a stretch of operations during which the caller does not look at any object
        # (no attribute read, no evaluation): everything is judged when it ends
        state.blind = bool(op[1])
        if not state.blind and S:
            ctx.set_backend(state.compiled)
            _check_all(ctx, state, "after a stretch of unobserved operations")
        return
    ctx.set_backend(state.compiled)
    if name == "new":
        S.append(_mk(op[1]))
        _check_slot(ctx, len(S) - 1, S[-1], "new")
        return
    if not S:
        return
    if name == "add":
        d = op[1] % len(S)
        cands = [k for k in range(len(S)) if S[k]["kind"] == S[d]["kind"]]
        s = cands[op[2] % len(cands)]
        dst, src = S[d], S[s]
        before = _snapshot(src) if (s != d and not state.blind) else None
        xa, xb = ps.fl(dst["model"].x), ps.fl(src["model"].x)
        state.adds.append((xa[1:-1] != xb[1:-1], _tail_class(xa, xb)))
        new_model = dst["model"].add(src["model"])
        ctx.call("add", dst["real"].add, src["real"])
        dst["model"] = new_model
        dst["scale"] = dst["scale"] + src["scale"]
        if before is not None:
            ctx.check(_snapshot(src) == before, "operand_modified",
                      lambda: "add(%d <- %d) changed the added operand" % (d, s))
        _check_all_unless_blind(ctx, state, "after add(%d <- %d)" % (d, s))
    elif name == "mul":
        d = op[1] % len(S)
        c = op[2]
        ctx.call("mul_scalar", S[d]["real"].mul_scalar, c)
        S[d]["model"] = S[d]["model"].scale(Fr(c))
        S[d]["scale"] = S[d]["scale"] * max(1.0, abs(c))
        _check_all_unless_blind(ctx, state, "after mul_scalar(%d, %r)" % (d, c))
    elif name == "copy":
        s = op[1] % len(S)
        r = ctx.call("copy", S[s]["real"].copy)
        S.append(dict(real=r, model=S[s]["model"].copy(), kind=S[s]["kind"],
                      scale=S[s]["scale"]))
        ctx.check(r is not S[s]["real"], "copy_is_same_object", "copy() returned self")
        _check_all_unless_blind(ctx, state, "after copy(%d)" % s)
    elif name == "avg":
        first = op[1][0] % len(S)
        kind = S[first]["kind"]
        cands = [k for k in range(len(S)) if S[k]["kind"] == kind]
        sel = [first] + [cands[v % len(cands)] for v in op[1][1:]]
        if len(sel) < 2:
            return
        from pyspike.DiscreteFunc import average_profile
        snaps = [_snapshot(S[k]) for k in sel]
        r = ctx.call("average_profile", average_profile, [S[k]["real"] for k in sel])
        m = S[sel[0]]["model"].copy()
        for k in sel[1:]:
            m = m.add(S[k]["model"])
        m = m.scale(Fr(1, len(sel)))
        S.append(dict(real=r, model=m, kind=kind, scale=sum(S[k]["scale"] for k in sel)))
        ctx.check([_snapshot(S[k]) for k in sel] == snaps, "operand_modified",
                  lambda: "average_profile changed one of its arguments %r" % (sel,))
        _check_all(ctx, state, "after average_profile(%r)" % (sel,))
    elif name == "probe":
        # queries in the middle of a history: a stale cache or an object changed
        # by a query shows up here
        d = op[1] % len(S)
        slot = S[d]
        r, m = slot["real"], slot["model"]
        tol = TOL * slot["scale"]
        x0, xN = m.x[0], m.x[-1]
        span = float(xN - x0)
        snap = _snapshot(slot)
        for (fa, fb) in op[2]:
            a = x0 + (xN - x0) * Fr(fa)
            b = x0 + (xN - x0) * Fr(fb)
            if not a < b:
                continue
            got = ctx.call("integral_interval", r.integral, (float(a), float(b)))
            ref = m.integral(Fr(float(a)), Fr(float(b)))
            ctx.check(abs(float(got) - float(ref)) <= tol * max(1.0, span) * 4,
                      "integral_interval_in_history",
                      lambda: "object %d: integral((%r,%r))=%r expected %r"
                      % (d, float(a), float(b), float(got), float(ref)))
            av = ctx.call("avrg_interval", r.avrg, (float(a), float(b)))
            ln = Fr(float(b)) - Fr(float(a))
            ctx.check(abs(float(av) - float(ref / ln)) <= tol * max(1.0, span) * 4 / min(1.0, float(ln)),
                      "avrg_interval_in_history",
                      lambda: "object %d: avrg((%r,%r))=%r expected %r"
                      % (d, float(a), float(b), float(av), float(ref / ln)))
        ts = [float(x0 + (xN - x0) * Fr(f)) for f in op[3]]
        if ts:
            got = ctx.call("eval_list", r, ts)
            exp = [m.value(Fr(t)) for t in ts]
            ctx.check(all(abs(float(g) - float(e)) <= tol for g, e in zip(got, exp)),
                      "evaluation_in_history",
                      lambda: "object %d: f(%r)=%r expected %r" % (d, ts, list(map(float, got)),
                                                                   ps.fl(exp)))
        av = ctx.call("avrg", r.avrg)
        ctx.check(abs(float(av) - float(m.integral() / (xN - x0))) <= tol * 4, "avrg_in_history",
                  lambda: "object %d: avrg()=%r expected %r"
                  % (d, float(av), float(m.integral() / (xN - x0))))
        ctx.check(_snapshot(slot) == snap, "object_modified_by_query",
                  "integral/avrg/evaluation changed the object")
        _check_all(ctx, state, "after probe(%d)" % d)
    else:
        raise ValueError("unknown op %r" % (op,))


# ---------------------------------------------------------------------------
# machine
# ---------------------------------------------------------------------------
def _machine(ctx, tier, stats, mod, deadline):
    big = tier != "quick"

    class AddMachine(hist.HistoryMachine):
        @initialize(q=st.sampled_from([1, 2, 8]), k0=st.integers(-16, 16),
                    n=st.integers(2, 40 if big else 16),
                    pool=st.lists(st.integers(1, 39), max_size=6), data=st.data())
        def init(self, q, k0, n, pool, data):
            self.grid = (q, k0, n)
            self.pool = sorted(set(p for p in pool if p < n))
            for kind in data.draw(st.sampled_from([["pwc", "pwl"], ["pwl", "pwc"],
                                                   ["pwl"], ["pwc"]])):
                self.do(["new", data.draw(self._fn(kind))])

        def _fn(self, kind):
            q, k0, n = self.grid
            near = None
            same = [sl for sl in self.state.slots if sl["kind"] == kind]
            if same:
                near = ps.fl(same[len(self.ops) % len(same)]["model"].x)
            return pw_arrays(kind, q, k0, n, 12 if big else 6, self.pool, near)

        @rule(kind=st.sampled_from(["pwc", "pwl"]), data=st.data())
        def new_function(self, kind, data):
            if len(self.state.slots) < 8:
                self.do(["new", data.draw(self._fn(kind))])

        @rule(d=st.integers(0, 99), s=st.integers(0, 99))
        def add(self, d, s):
            self.do(["add", d, s])

        @rule(d=st.integers(0, 99), s=st.integers(0, 99))
        def add_again(self, d, s):
            self.do(["add", d, s])

        @rule(d=st.integers(0, 99), s=st.integers(0, 99))
        def add_more(self, d, s):
            self.do(["add", d, s])

        @rule(d=st.integers(0, 99),
              c=st.sampled_from([2.0, 0.5, -1.0, 0.25, 3.0, -0.5, 1.0 / 3, 1.5, 0.0]))
        def mul_scalar(self, d, c):
            self.do(["mul", d, c])

        @rule(s=st.integers(0, 99))
        def copy(self, s):
            if len(self.state.slots) < 8:
                self.do(["copy", s])

        @rule(sel=st.lists(st.integers(0, 99), min_size=2, max_size=4))
        def average(self, sel):
            if len(self.state.slots) < 8:
                self.do(["avg", sel])

        @rule(b=st.booleans())
        def backend(self, b):
            self.do(["backend", b])

        @rule(d=st.integers(0, 99),
              ivs=st.lists(st.tuples(st.integers(0, 16), st.integers(0, 16)), min_size=1,
                           max_size=3),
              ts=st.lists(st.integers(0, 16), max_size=4))
        def probe(self, d, ivs, ts):
            self.do(["probe", d, [[min(a, b) / 16.0, max(a, b) / 16.0] for a, b in ivs],
                     [t / 16.0 for t in ts]])

    return hist.bind(AddMachine, mod, ctx, stats, deadline, "machine")


# ---------------------------------------------------------------------------
# stateless pairs
# ---------------------------------------------------------------------------
@st.composite
def _pair(draw, tier):
    q = draw(st.sampled_from([1, 2, 8]))
    k0 = draw(st.integers(-8 * q, 8 * q))
    n = draw(st.integers(2, 20 if tier == "quick" else 50))
    kind = draw(st.sampled_from(["pwc", "pwl"]))
    pool = draw(st.lists(st.integers(1, max(1, n - 1)), max_size=5))
    mp = 7 if tier == "quick" else 16
    if draw(st.integers(0, 7)) == 0:
        k0 += (1 << 31) * q          # epoch-like time axis: large offset, short pieces
    f = draw(pw_arrays(kind, q, k0, n, mp, pool))
    g = draw(pw_arrays(kind, q, k0, n, mp, pool, f["x"]))
    c = dict(kind="pair", f=f, g=g, c=draw(st.sampled_from([0.5, 2.0, -1.0, 0.25])),
             compiled=draw(st.booleans()))
    if q == 1 and draw(st.sampled_from([False, False, True])):
        # receiver written with integers (e.g. a zero accumulator): only with the
        # Python fallback, the compiled routines accept float64 buffers only
        for key in ("y", "y1", "y2"):
            if key in f:
                f[key] = [float(int(v)) for v in f[key]]
        f["as_int"] = True
        c["compiled"] = False
        c["c"] = 2.0
    return c


def _enum(tier, shard, nshards):
    """every pair of breakpoint subsets of a 6-point interior grid, both kinds"""
    vals = [1.0, -2.5, 0.5, 3.0, -0.25, 2.0, 1.5]
    vals2 = [0.75, 1.25, -3.0, 0.0, 2.5, -1.5, 4.0]
    idx = 0
    for kind in ("pwc", "pwl"):
        for m1 in range(64):
            for m2 in range(64):
                idx += 1
                if idx % nshards != shard:
                    continue
                fs = []
                for m, (va, vb) in ((m1, (vals, vals2)), (m2, (vals2, vals))):
                    xs = [0.0] + [float(k + 1) for k in range(6) if m >> k & 1] + [7.0]
                    n = len(xs) - 1
                    fd = dict(kind=kind, x=xs)
                    if kind == "pwc":
                        fd["y"] = va[:n]
                    else:
                        fd["y1"] = va[:n]
                        fd["y2"] = vb[:n]
                    fs.append(fd)
                yield dict(kind="pair", f=fs[0], g=fs[1], c=0.5, compiled=bool(idx & 1))


PHASES = [
    MachinePhase("machine", _machine, dict(quick=600, thorough=4000),
                 dict(quick=30, thorough=60)),
    HypPhase("pairs", _pair, dict(quick=6000, thorough=40000)),
    EnumPhase("grid6", _enum,
              lambda tier: "pwc and pwl: every ordered pair of breakpoint subsets of the "
                           "interior grid {1..6} on [0,7] (2 x 64 x 64 pairs)",
              tiers=("quick", "thorough")),
]


def classify(case):
    if case.get("kind") == "history":
        ops = case["ops"]
        labels = ["history", "steps=%d" % min(60, 10 * (len(ops) // 10))]
        labels += sorted(set("op:" + o[0] for o in ops))
        st_ = _dry(case)
        labels += sorted(set("add:" + t for d, t in st_ if d))
        return labels
    f, g = case["f"], case["g"]
    labels = ["pair", "kind:" + f["kind"], "compiled" if case["compiled"] else "fallback",
              "add:" + _tail_class(f["x"], g["x"])]
    if f.get("as_int"):
        labels.append("integer_receiver")
    if set(f["x"][1:-1]) & set(g["x"][1:-1]):
        labels.append("shared_interior_breakpoint")
    if len(f["x"]) == 2 or len(g["x"]) == 2:
        labels.append("single_piece_operand")
    if any(0 < abs(a - b) < 1e-6 for a in f["x"] for b in g["x"]):
        labels.append("almost_shared_breakpoint")
    return labels


def _dry(case):
    """tail classes of the adds of a history, from a model-only replay"""
    xs = []
    kinds = []
    adds = []
    for op in case["ops"]:
        if op[0] == "new":
            xs.append(list(op[1]["x"]))
            kinds.append(op[1]["kind"])
        elif not xs:
            continue
        elif op[0] == "add":
            d = op[1] % len(xs)
            cands = [k for k in range(len(xs)) if kinds[k] == kinds[d]]
            s = cands[op[2] % len(cands)]
            adds.append((xs[d][1:-1] != xs[s][1:-1], _tail_class(xs[d], xs[s])))
            xs[d] = sorted(set(xs[d]) | set(xs[s]))
        elif op[0] == "copy":
            s = op[1] % len(xs)
            xs.append(list(xs[s]))
            kinds.append(kinds[s])
        elif op[0] == "avg":
            first = op[1][0] % len(xs)
            cands = [k for k in range(len(xs)) if kinds[k] == kinds[first]]
            sel = [first] + [cands[v % len(cands)] for v in op[1][1:]]
            cur = list(xs[first])
            for k in sel[1:]:
                adds.append((cur[1:-1] != xs[k][1:-1], _tail_class(cur, xs[k])))
                cur = sorted(set(cur) | set(xs[k]))
            xs.append(cur)
            kinds.append(kinds[first])
    return adds


def nontrivial(case):
    if case.get("kind") == "history":
        adds = [t for d, t in _dry(case) if d]
        return len(adds) >= 2 and len(set(adds)) >= 2
    return case["f"]["x"][1:-1] != case["g"]["x"][1:-1]


def run_case(case, ctx):
    if case.get("kind") == "history":
        return hist.replay_history(__import__("pbt.props.c09", fromlist=["x"]), case, ctx)
    st_ = new_state()
    apply_op(st_, ["backend", case["compiled"]], ctx)
    apply_op(st_, ["new", case["f"]], ctx)
    apply_op(st_, ["new", case["g"]], ctx)
    apply_op(st_, ["copy", 0], ctx)          # slot 2 = copy of f
    apply_op(st_, ["copy", 1], ctx)          # slot 3 = copy of g
    apply_op(st_, ["add", 0, 1], ctx)        # f += g
    apply_op(st_, ["add", 3, 2], ctx)        # g' += f'   (other order)
    a, b = st_.slots[0], st_.slots[3]
    tol = TOL * a["scale"]
    ra, rb = a["real"], b["real"]
    ctx.check(list(ra.x) == list(rb.x), "commutation_breakpoints",
              lambda: "f+g x=%r, g+f x=%r" % (list(ra.x), list(rb.x)))
    ya = ra.y if a["kind"] == "pwc" else np.concatenate([ra.y1, ra.y2])
    yb = rb.y if b["kind"] == "pwc" else np.concatenate([rb.y1, rb.y2])
    ctx.check(len(ya) == len(yb) and bool(np.all(np.abs(ya - yb) <= tol)), "commutation",
              lambda: "f+g=%r, g+f=%r" % (list(ya), list(yb)))
    apply_op(st_, ["probe", 0, [[0.0, 1.0], [0.25, 0.5], [0.125, 0.875]], [0.0, 0.5, 1.0]], ctx)
    if case["f"].get("as_int"):
        return      # in-place scaling of integer arrays is a numpy casting error by design
    apply_op(st_, ["mul", 0, case["c"]], ctx)
    apply_op(st_, ["probe", 0, [[0.0, 1.0], [0.25, 0.5]], [0.25]], ctx)
    apply_op(st_, ["avg", [0, 1, 2]], ctx)
    # the same kind of sequence without anybody looking in between: fresh f and g,
    # f += g, then the OPERAND is scaled, a copy of f is taken and f is scaled - and only
    # then everything is inspected
    n0 = len(st_.slots)
    apply_op(st_, ["new", case["f"]], ctx)       # n0
    apply_op(st_, ["new", case["g"]], ctx)       # n0+1
    apply_op(st_, ["blind", True], ctx)
    apply_op(st_, ["add", n0, n0 + 1], ctx)
    apply_op(st_, ["mul", n0 + 1, case["c"]], ctx)
    apply_op(st_, ["copy", n0], ctx)             # n0+2
    apply_op(st_, ["mul", n0, case["c"]], ctx)
    apply_op(st_, ["blind", False], ctx)
