"""C11 - discrete profiles add by event and integrate over open intervals."""
from fractions import Fraction as Fr

import numpy as np
from hypothesis import strategies as st
from hypothesis.stateful import rule, initialize

from .. import gen, oracle as O, ps, hist
from ..runner import HypPhase, EnumPhase, MachinePhase

PID = "C11"
RULE = ("two kinds of cases. (1) histories from a Hypothesis rule-based state machine over "
        "discrete profiles on one common support: rules new_profile (events anywhere in "
        "[T0,T1] INCLUDING on the edges, from a shared pool of times so that operands share "
        "event times, multiplicities 1..4, -mp <= y <= mp, profiles without events), "
        "add(dst, src), mul_scalar, copy, probe(interval list, smoothing window k), switch "
        "backend; after every step every live object is compared with its exact dict "
        "model. (2) stateless pairs with intervals. Non-trivial = an add with a shared "
        "event time and tails of unequal length, or an interval end that coincides with an "
        "event time, or an event on an edge. Distinct = distinct case JSON.")
ASSUMPTIONS = [
    "compiled backend = the .pyx add routine through the pyxshim transliteration",
    "oracle = dict time -> (sum y, sum mp) over Fractions; unit-expansion model for the "
    "smoothed plottable data (pbt/oracle.smooth_model)",
    "values of the two framing entries are not asserted after add (they 'never count'); "
    "their times are",
]

TOL = 1e-12


@st.composite
def df_arrays(draw, q, k0, n, pool, max_events):
    """discrete profile as PySpike produces it"""
    style = draw(st.sampled_from(["pool", "random", "pool", "edges", "none", "random"]))
    if style == "none":
        ev = []
    elif style == "edges":
        ev = sorted(set(draw(st.lists(st.sampled_from([0, n] + pool), max_size=max_events)))
                    | set(draw(st.sampled_from([[0], [n], [0, n]]))))
    elif style == "pool":
        ev = sorted(set(draw(st.lists(st.sampled_from(pool + [0, n]), min_size=1,
                                      max_size=max_events))))
    else:
        ev = sorted(set(draw(st.lists(st.integers(0, n), min_size=1, max_size=max_events))))
    base = draw(st.sampled_from([1, 1, 2, 3]))       # "number of profiles" in the entry
    x = [0] + ev + [n]
    mp = []
    y = []
    for _ in ev:
        m = draw(st.sampled_from([base, base, 2 * base, base + 1]))
        mp.append(float(m))
        y.append(float(draw(st.integers(-m if draw(st.booleans()) else 0, m))))
    if ev:
        y = [y[0]] + y + [y[-1]]
        mp = [mp[0]] + mp + [mp[-1]]
    else:
        y = [1.0, 1.0]
        mp = [float(base), float(base)]
    return dict(x=[(k0 + p) / q for p in x], y=y, mp=mp)


def _intervals(draw, q, k0, n, events):
    cands = sorted(set([0, 2 * n] + [2 * e for e in events] +
                       [a + b for a, b in zip(events, events[1:])]))
    pts = sorted(set(draw(st.lists(st.one_of(st.sampled_from(cands),
                                             st.integers(0, 2 * n)),
                                   min_size=2, max_size=6))))
    if len(pts) < 2:
        pts = [0, 2 * n]
    if len(pts) % 2:
        pts = pts[:-1]
    ivs = [[pts[i], pts[i + 1]] for i in range(0, len(pts), 2)]
    if len(pts) >= 3 and draw(st.booleans()):
        # adjoining intervals that meet in one point (often an event time): the point
        # belongs to neither of the two open intervals
        ivs = [[pts[i], pts[i + 1]] for i in range(len(pts) - 1)]
    if draw(st.sampled_from([False, False, True])):
        # an overlapping interval: every interval counts on its own
        a = draw(st.integers(0, 2 * n - 1))
        ivs.append([a, draw(st.integers(a + 1, 2 * n))])
    return [[(2 * k0 + a) / (2.0 * q), (2 * k0 + b) / (2.0 * q)] for a, b in ivs]


# ---------------------------------------------------------------------------
# interpreter
# ---------------------------------------------------------------------------
class State(object):
    def __init__(self):
        self.slots = []
        self.compiled = False


def new_state():
    return State()


def _mk(fd):
    import pyspike
    if fd.get("as_int"):
        real = pyspike.DiscreteFunc([int(v) for v in fd["x"]], [int(v) for v in fd["y"]],
                                    [int(v) for v in fd["mp"]])
    else:
        real = pyspike.DiscreteFunc(np.array(fd["x"]), np.array(fd["y"]), np.array(fd["mp"]))
    model = O.DiscreteModel.from_arrays(fd["x"], fd["y"], fd["mp"])
    return dict(real=real, model=model, scale=max([1.0] + [abs(v) for v in fd["y"]]))


def _snapshot(slot):
    r = slot["real"]
    return (r.x.tobytes(), r.y.tobytes(), r.mp.tobytes())


def _check_slot(ctx, k, slot, what):
    r, m = slot["real"], slot["model"]
    ent = m.entries()
    n = len(ent) + 2
    ctx.check(len(r.x) == n and len(r.y) == n and len(r.mp) == n, "array_lengths",
              lambda: "%s: object %d lens %d/%d/%d expected %d (x=%r)"
              % (what, k, len(r.x), len(r.y), len(r.mp), n, list(r.x)))
    ctx.check(Fr(float(r.x[0])) == m.T0 and Fr(float(r.x[-1])) == m.T1, "edge_times",
              lambda: "%s: object %d x=%r" % (what, k, list(r.x)))
    ctx.check(ps.exact_eq(r.x[1:-1], [e[0] for e in ent]), "event_times",
              lambda: "%s: object %d x=%r expected events %r"
              % (what, k, list(r.x), ps.fl([e[0] for e in ent])))
    tol = TOL * slot["scale"]
    ctx.check(all(abs(float(a) - float(e[1])) <= tol for a, e in zip(r.y[1:-1], ent)),
              "event_values", lambda: "%s: object %d y=%r expected %r (x=%r)"
              % (what, k, list(r.y[1:-1]), ps.fl([e[1] for e in ent]), list(r.x)))
    ctx.check(ps.exact_eq(r.mp[1:-1], [e[2] for e in ent]), "event_multiplicities",
              lambda: "%s: object %d mp=%r expected %r (x=%r)"
              % (what, k, list(r.mp[1:-1]), ps.fl([e[2] for e in ent]), list(r.x)))
    val, mp = ctx.call("integral", r.integral)
    ey, emp = m.integral()
    ctx.check(abs(float(val) - float(ey)) <= tol * max(1, len(ent)) and Fr(float(mp)) == emp,
              "integral_all", lambda: "%s: object %d integral()=(%r,%r) expected (%r,%r)"
              % (what, k, val, mp, float(ey), float(emp)))


def _check_all(ctx, state, what):
    for k, slot in enumerate(state.slots):
        _check_slot(ctx, k, slot, what)


def _probe(ctx, slot, ivs, kwin, what):
    r, m = slot["real"], slot["model"]
    tol = TOL * slot["scale"]
    fivs = [(Fr(a), Fr(b)) for a, b in ivs]
    # single intervals
    tot_y = Fr(0)
    tot_mp = Fr(0)
    for (a, b), (fa, fb) in zip(ivs, fivs):
        val, mp = ctx.call("integral_interval", r.integral, (a, b))
        ey, emp = m.integral([(fa, fb)])
        tot_y += ey
        tot_mp += emp
        ctx.check(abs(float(val) - float(ey)) <= tol * 8 and Fr(float(mp)) == emp,
                  "integral_interval",
                  lambda: "%s: integral((%r,%r))=(%r,%r) expected (%r,%r); x=%r y=%r mp=%r"
                  % (what, a, b, val, mp, float(ey), float(emp), list(r.x), list(r.y),
                     list(r.mp)))
        av = ctx.call("avrg_interval", r.avrg, (a, b))
        eav = ey / emp if emp > 0 else Fr(1)
        ctx.check(abs(float(av) - float(eav)) <= tol * 8, "avrg_interval",
                  lambda: "%s: avrg((%r,%r))=%r expected %r" % (what, a, b, av, float(eav)))
    # avrg(normalize=False) is the plain sum of the values
    vs = ctx.call("avrg_unnormalized", r.avrg, None, False)
    ctx.check(abs(float(vs) - float(m.integral()[0])) <= tol * 8, "avrg_unnormalized",
              lambda: "%s: avrg(normalize=False)=%r expected %r" % (what, vs,
                                                                    float(m.integral()[0])))
    # list of intervals adds up - in whatever order the intervals are given
    lst = [tuple(p) for p in ivs]
    if len(lst) > 1 and (len(lst) + int(ivs[0][0] * 4)) % 2:
        lst = lst[::-1]
    val, mp = ctx.call("integral_interval_list", r.integral, lst)
    ctx.check(abs(float(val) - float(tot_y)) <= tol * 8 and Fr(float(mp)) == tot_mp,
              "integral_interval_list",
              lambda: "%s: integral(%r)=(%r,%r) expected (%r,%r)"
              % (what, lst, val, mp, float(tot_y), float(tot_mp)))
    av = ctx.call("avrg_interval_list", r.avrg, lst)
    eav = tot_y / tot_mp if tot_mp > 0 else Fr(1)
    ctx.check(abs(float(av) - float(eav)) <= tol * 8, "avrg_interval_list",
              lambda: "%s: avrg(%r)=%r expected %r" % (what, lst, av, float(eav)))
    av0 = ctx.call("avrg_none", r.avrg)
    ey, emp = m.integral()
    ctx.check(abs(float(av0) - float(ey / emp if emp > 0 else Fr(1))) <= tol * 8,
              "avrg_all", lambda: "%s: avrg()=%r" % (what, av0))
    # plottable data
    xp, yp = ctx.call("get_plottable_data", r.get_plottable_data, kwin)
    ry = [float(v) for v in r.y]
    rmp = [float(v) for v in r.mp]
    if kwin == 0:
        exp = [Fr(a) / Fr(b) for a, b in zip(ry, rmp)]
    else:
        exp = O.smooth_model(ry, rmp, kwin)
    ctx.check(list(map(float, xp)) == [float(v) for v in r.x], "plottable_x",
              lambda: "x_plot=%r x=%r" % (list(xp), list(r.x)))
    ctx.check(len(yp) == len(exp) and all(abs(float(a) - float(b)) <= tol * 8
                                          for a, b in zip(yp, exp)), "plottable_y",
              lambda: "%s: window %d: y_plot=%r expected %r (y=%r mp=%r)"
              % (what, kwin, list(map(float, yp)), ps.fl(exp), ry, rmp))


def apply_op(state, op, ctx):
    name = op[0]
    S = state.slots
    if name == "backend":
        state.compiled = bool(op[1])
        return
    ctx.set_backend(state.compiled)
    if name == "new":
        S.append(_mk(op[1]))
        _check_slot(ctx, len(S) - 1, S[-1], "new")
        return
    if not S:
        return
    if name == "add":
        d = op[1] % len(S)
        s = op[2] % len(S)
        dst, src = S[d], S[s]
        before = _snapshot(src) if s != d else None
        new_model = dst["model"].add(src["model"])
        ctx.call("add", dst["real"].add, src["real"])
        dst["model"] = new_model
        dst["scale"] = dst["scale"] + src["scale"]
        if before is not None:
            ctx.check(_snapshot(src) == before, "operand_modified",
                      lambda: "add(%d <- %d) changed the added operand" % (d, s))
        _check_all(ctx, state, "after add(%d <- %d)" % (d, s))
    elif name == "mul":
        d = op[1] % len(S)
        ctx.call("mul_scalar", S[d]["real"].mul_scalar, op[2])
        S[d]["model"] = S[d]["model"].scale(Fr(op[2]))
        S[d]["scale"] = S[d]["scale"] * max(1.0, abs(op[2]))
        _check_all(ctx, state, "after mul_scalar(%d, %r)" % (d, op[2]))
    elif name == "copy":
        s = op[1] % len(S)
        r = ctx.call("copy", S[s]["real"].copy)
        S.append(dict(real=r, model=S[s]["model"].copy(), scale=S[s]["scale"]))
        _check_all(ctx, state, "after copy(%d)" % s)
    elif name == "probe":
        d = op[1] % len(S)
        snap = _snapshot(S[d])
        _probe(ctx, S[d], op[2], op[3], "probe(%d)" % d)
        ctx.check(_snapshot(S[d]) == snap, "object_modified_by_query",
                  "integral/avrg/get_plottable_data changed the object")
    else:
        raise ValueError("unknown op %r" % (op,))


# ---------------------------------------------------------------------------
# machine
# ---------------------------------------------------------------------------
def _machine(ctx, tier, stats, mod, deadline):
    big = tier != "quick"

    class DiscreteMachine(hist.HistoryMachine):
        @initialize(q=st.sampled_from([1, 2, 8]), k0=st.integers(-16, 16),
                    n=st.integers(2, 40 if big else 16),
                    pool=st.lists(st.integers(0, 40), min_size=1, max_size=6),
                    data=st.data())
        def init(self, q, k0, n, pool, data):
            self.grid = (q, k0, n)
            self.pool = sorted(set(min(p, n) for p in pool))
            self.do(["new", data.draw(self._fn())])
            self.do(["new", data.draw(self._fn())])

        def _fn(self):
            q, k0, n = self.grid
            return df_arrays(q, k0, n, self.pool, 10 if big else 5)

        @rule(data=st.data())
        def new_profile(self, data):
            if len(self.state.slots) < 8:
                self.do(["new", data.draw(self._fn())])

        @rule(d=st.integers(0, 99), s=st.integers(0, 99))
        def add(self, d, s):
            self.do(["add", d, s])

        @rule(d=st.integers(0, 99), s=st.integers(0, 99))
        def add_again(self, d, s):
            self.do(["add", d, s])

        @rule(d=st.integers(0, 99), c=st.sampled_from([2.0, 0.5, -1.0, 0.25, 3.0]))
        def mul_scalar(self, d, c):
            self.do(["mul", d, c])

        @rule(s=st.integers(0, 99))
        def copy(self, s):
            if len(self.state.slots) < 8:
                self.do(["copy", s])

        @rule(d=st.integers(0, 99), k=st.sampled_from([0, 1, 2, 3, 4]), data=st.data())
        def probe(self, d, k, data):
            q, k0, n = self.grid
            ivs = _intervals(data.draw, q, k0, n, self.pool)
            self.do(["probe", d, ivs, k])

        @rule(b=st.booleans())
        def backend(self, b):
            self.do(["backend", b])

    return hist.bind(DiscreteMachine, mod, ctx, stats, deadline, "machine")


# ---------------------------------------------------------------------------
# stateless pairs
# ---------------------------------------------------------------------------
@st.composite
def _pair(draw, tier):
    q = draw(st.sampled_from([1, 2, 8]))
    k0 = draw(st.integers(-8 * q, 8 * q))
    n = draw(st.integers(1, 20 if tier == "quick" else 50))
    pool = sorted(set(draw(st.lists(st.integers(0, n), min_size=1, max_size=6))))
    me = 6 if tier == "quick" else 14
    f = draw(df_arrays(q, k0, n, pool, me))
    g = draw(df_arrays(q, k0, n, pool, me))
    ev = sorted(set(round(v * q - k0) for v in f["x"][1:-1] + g["x"][1:-1]))
    ivs = _intervals(draw, q, k0, n, ev)
    c = dict(kind="pair", f=f, g=g, intervals=ivs, window=draw(st.sampled_from([0, 1, 2, 3, 4])),
             compiled=draw(st.booleans()))
    if q == 1 and draw(st.sampled_from([False, False, False, True])):
        # receiver built from integer arrays (python fallback only: the compiled
        # routine takes float64 buffers)
        f["as_int"] = True
        c["compiled"] = False
    return c


def _enum(tier, shard, nshards):
    """every pair of event subsets of {0..4} on [0,4] (edges included)"""
    idx = 0
    for m1 in range(32):
        for m2 in range(32):
            idx += 1
            if idx % nshards != shard:
                continue
            fs = []
            for m, base in ((m1, 1), (m2, 2)):
                ev = [float(k) for k in range(5) if m >> k & 1]
                y = [float((k * 7 + base) % (base + 1)) for k in range(len(ev))]
                mp = [float(base)] * len(ev)
                if ev:
                    fd = dict(x=[0.0] + ev + [4.0], y=[y[0]] + y + [y[-1]],
                              mp=[mp[0]] + mp + [mp[-1]])
                else:
                    fd = dict(x=[0.0, 4.0], y=[1.0, 1.0], mp=[float(base)] * 2)
                fs.append(fd)
            for (a, b) in ((0.0, 4.0), (0.0, 2.0), (1.0, 3.0), (0.5, 3.5), (2.0, 4.0)):
                yield dict(kind="pair", f=fs[0], g=fs[1], intervals=[[a, b]],
                           window=idx % 3, compiled=bool(idx & 1))


PHASES = [
    MachinePhase("machine", _machine, dict(quick=500, thorough=3000),
                 dict(quick=25, thorough=60)),
    HypPhase("pairs", _pair, dict(quick=7000, thorough=60000)),
    EnumPhase("grid4", _enum,
              lambda tier: "every ordered pair of event subsets of {0..4} on [0,4] (events "
                           "on both edges included) x 5 intervals x window in {0,1,2}",
              tiers=("quick", "thorough")),
]


def _pair_labels(f, g):
    labels = set()
    ef, eg = f["x"][1:-1], g["x"][1:-1]
    if set(ef) & set(eg):
        labels.add("shared_event_time")
        if (ef and eg) and ef[-1] != eg[-1]:
            labels.add("shared_event_and_unequal_tails")
    for fd in (f, g):
        e = fd["x"][1:-1]
        if e and (e[0] == fd["x"][0] or e[-1] == fd["x"][-1]):
            labels.add("event_on_edge")
        if not e:
            labels.add("operand_without_events")
    return labels


def classify(case):
    if case.get("kind") == "history":
        ops = case["ops"]
        labels = {"history"} | set("op:" + o[0] for o in ops)
        news = [o[1] for o in ops if o[0] == "new"]
        for a in news:
            for b in news:
                if a is not b:
                    labels |= _pair_labels(a, b)
        return sorted(labels)
    labels = {"pair", "compiled" if case["compiled"] else "fallback",
              "window=%d" % case["window"]} | _pair_labels(case["f"], case["g"])
    ev = set(case["f"]["x"][1:-1]) | set(case["g"]["x"][1:-1])
    if any(e in ev for iv in case["intervals"] for e in iv):
        labels.add("interval_end_on_event")
    return sorted(labels)


def nontrivial(case):
    l = set(classify(case))
    if case.get("kind") == "history":
        return "op:add" in l and bool(l & {"shared_event_and_unequal_tails", "event_on_edge"})
    return bool(l & {"shared_event_and_unequal_tails", "event_on_edge",
                     "interval_end_on_event"})


def run_case(case, ctx):
    if case.get("kind") == "history":
        return hist.replay_history(__import__("pbt.props.c11", fromlist=["x"]), case, ctx)
    s = new_state()
    apply_op(s, ["backend", case["compiled"]], ctx)
    apply_op(s, ["new", case["f"]], ctx)
    apply_op(s, ["new", case["g"]], ctx)
    apply_op(s, ["copy", 0], ctx)
    apply_op(s, ["probe", 0, case["intervals"], case["window"]], ctx)
    apply_op(s, ["add", 0, 1], ctx)
    apply_op(s, ["probe", 0, case["intervals"], case["window"]], ctx)
    apply_op(s, ["add", 1, 2], ctx)      # g += copy of f : same events as f + g
    a, b = s.slots[0]["real"], s.slots[1]["real"]
    ctx.check(list(a.x) == list(b.x) and list(a.y[1:-1]) == list(b.y[1:-1])
              and list(a.mp[1:-1]) == list(b.mp[1:-1]), "commutation",
              lambda: "f+g: x=%r y=%r mp=%r ; g+f: x=%r y=%r mp=%r"
              % (list(a.x), list(a.y), list(a.mp), list(b.x), list(b.y), list(b.mp)))
    if case["f"].get("as_int") and case["g"]["x"] == [float(int(v)) for v in case["g"]["x"]] \
            and False:
        return
    apply_op(s, ["mul", 0, 0.5], ctx)
    apply_op(s, ["probe", 0, case["intervals"], case["window"]], ctx)
