"""C15 - MRTS only de-emphasises small time scales; 'auto' is the pooled ISI
threshold."""
import math
from fractions import Fraction as Fr

import numpy as np
from hypothesis import strategies as st

from .. import gen, oracle as O, ps, measures as M
from ..runner import HypPhase, EnumPhase

PID = "C15"
RULE = ("cases = (list of 2..4 valid trains on a dyadic grid, an ordered pair MRTS1 <= "
        "MRTS2 drawn from {0, grid values, an ISI of the case, 2*ISI, quarter-grid values, "
        "> recording}, RI, max_tau, backend); each case runs the bivariate form (first two "
        "trains), the multivariate form and the matrices. Non-trivial = MRTS2 lies above at "
        "least one ISI of the trains and not above all of them (the threshold bites "
        "somewhere but not everywhere), or - for 'auto' - a train has an edge interval "
        "that wins the max rule, a spike on an edge, or no spikes. Distinct = distinct JSON.")
ASSUMPTIONS = [
    "compiled=true cases execute the .pyx source through the pyxshim transliteration",
    "monotonicity is metamorphic (same code, two MRTS values, 1e-12 slack on values only); "
    "the automatic threshold is compared with the exact pooled-ISI oracle (relative 1e-12) "
    "and 'auto' results with the results for that explicit threshold (1e-9; SPIKE-Sync and "
    "order exactly)",
]


@st.composite
def _long_case(draw, tier):
    """two or three trains, at least one with more than 256 spikes (up to ~1100): regular
    with a few spikes taken out and a few extra gaps, so the pooled ISIs are not all equal"""
    q = draw(st.sampled_from([1, 2, 8]))
    trains = []
    n = 0
    for _ in range(draw(st.integers(2, 3))):
        k = draw(st.sampled_from([257, 258, 300, 511, 512, 513, 514, 700, 1024, 1025, 1026, 40]
                                 if trains else [257, 258, 300, 512, 513, 514, 1025, 1100]))
        per = draw(st.sampled_from([1, 2, 3]))
        a = draw(st.integers(0, 5))
        tr = [a + per * j for j in range(k)]
        for _ in range(draw(st.integers(0, 4))):
            j = draw(st.integers(0, len(tr) - 1))
            d = draw(st.integers(1, 9))
            tr = tr[:j] + [v + d for v in tr[j:]]      # one longer gap
        for _ in range(draw(st.integers(0, 3))):
            del tr[draw(st.integers(0, len(tr) - 1))]
        trains.append(tr)
        n = max(n, tr[-1])
    n += draw(st.integers(0, 7))
    k0 = draw(st.integers(-2000, 50)) * q
    c = gen.to_times(dict(q=q, k0=k0, n=n, trains=trains))
    c["long_auto"] = True
    c["m1"] = c["m2"] = 0.0
    c["ri"] = draw(st.booleans())
    c["max_tau"] = None
    c["compiled"] = draw(st.booleans())
    c["reconcile_off"] = draw(st.booleans())
    return c


@st.composite
def _case(draw, tier):
    if draw(st.integers(0, 39)) == 0:
        return draw(_long_case(tier))
    nmax = 3 if tier == "quick" else 4
    g = draw(gen.int_train_lists(2, nmax, related=draw(st.booleans()),
                                 max_spikes=7 if tier == "quick" else 16))
    c = gen.to_times(g)
    a = draw(gen.mrts_for(g, allow_none=False))
    b = draw(st.one_of(gen.mrts_for(g, allow_none=False), st.just(a)))
    c["m1"], c["m2"] = min(a, b), max(a, b)
    c["ri"] = draw(st.booleans())
    c["max_tau"] = draw(gen.maxtau_for(g))
    c["compiled"] = draw(st.booleans())
    # the (valid) trains may be handed over with Reconcile=False: 'auto' still means
    # the threshold pooled over the trains of the call
    c["reconcile_off"] = draw(st.sampled_from([False, False, True]))
    return c


def _enum(tier, shard, nshards):
    G = 6
    n = 1 << (G + 1)
    for m1 in range(shard, n, nshards):
        a = [float(k) for k in gen.subset_of_mask(m1, G)]
        for m2 in range(m1, n):
            b = [float(k) for k in gen.subset_of_mask(m2, G)]
            for (x, y) in ((0.0, 1.0), (1.0, 2.0), (2.0, 3.0), (1.5, 4.0), (3.0, 12.0)):
                yield dict(t0=0.0, t1=float(G), trains=[a, b], m1=x, m2=y,
                           ri=bool(m2 & 1), max_tau=None, compiled=bool((m1 + m2) & 1))


PHASES = [
    HypPhase("dyadic", _case, dict(quick=2000, thorough=25000)),
    EnumPhase("grid6", _enum,
              lambda tier: "all unordered pairs of subsets of {0..6} on [0,6] x (MRTS1,MRTS2) "
                           "in {(0,1),(1,2),(2,3),(1.5,4),(3,12)}"),
]


def _gaps(case, trains=None):
    trs, T0, T1 = ps.fr_trains(case)
    if trains is not None:
        trs = [trs[k] for k in trains]
    gaps = []
    for tr in trs:
        pts = [T0] + list(tr) + [T1]
        gaps += [b - a for a, b in zip(pts, pts[1:]) if b > a]
    return gaps


def _pool(case):
    trs, T0, T1 = ps.fr_trains(case)
    pool = []
    for tr in trs:
        pool += O.isi_pool(tr, T0, T1)
    return pool


def classify(case):
    labels = ["N=%d" % len(case["trains"]), "compiled" if case["compiled"] else "fallback"]
    if case.get("long_auto"):
        return labels + ["train_longer_than_256_spikes"]
    pool = _pool(case)
    m2 = Fr(case["m2"])
    if any(m2 > p for p in pool) and any(m2 <= p for p in pool):
        labels.append("mrts2_bites_partially")
    if case["m1"] == 0:
        labels.append("mrts1_zero")
    if case["m1"] == case["m2"]:
        labels.append("equal_thresholds")
    if Fr(case["m1"]) <= min(_gaps(case)) and case["m1"] > 0:
        labels.append("mrts1_below_every_isi")
    if _auto_interesting(case):
        labels.append("auto_edge_rule")
    return labels


def _auto_interesting(case):
    trs, T0, T1 = ps.fr_trains(case)
    for tr in trs:
        if not tr:
            return True
        if tr[0] == T0 or tr[-1] == T1:
            return True
        if len(tr) > 1 and (tr[0] - T0 > tr[1] - tr[0] or T1 - tr[-1] > tr[-1] - tr[-2]):
            return True
    return False


def nontrivial(case):
    if case.get("long_auto"):
        return True
    pool = _pool(case)
    m2 = Fr(case["m2"])
    return (any(m2 > p for p in pool) and any(m2 <= p for p in pool)) or \
        _auto_interesting(case)


def _arr(f):
    return M.profile_arrays(f)


def _le(a, b, slack=1e-12):
    a = np.asarray(a, dtype=float)
    b = np.asarray(b, dtype=float)
    return a.shape == b.shape and bool(np.all(np.isfinite(a)) and np.all(np.isfinite(b))
                                       and np.all(a <= b + slack))


def _eq(a, b, tol):
    a = np.asarray(a, dtype=float)
    b = np.asarray(b, dtype=float)
    if a.shape != b.shape:
        return False
    if a.size == 0:
        return True
    if tol == 0:
        return bool(np.array_equal(a, b))
    return bool(np.all(np.isfinite(a)) and np.all(np.isfinite(b))
                and np.all(np.abs(a - b) <= tol * np.maximum(1.0, np.abs(b))))


def _same_exact(a, b):
    """identical, NaN counting as equal to NaN (finiteness is C18's business)"""
    if isinstance(a, dict):
        return a.keys() == b.keys() and all(_same_exact(a[k], b[k]) for k in a)
    return bool(np.array_equal(np.asarray(a, dtype=float), np.asarray(b, dtype=float),
                               equal_nan=True))


def _judge_long(case, ctx, sts):
    """'auto' for trains with several hundred spikes: the threshold is the RMS of ALL pooled
    ISIs, and the measures with 'auto' equal the measures with that number"""
    import pyspike
    from pyspike.isi_lengths import default_thresh
    trs, T0, T1 = ps.fr_trains(case)
    thr = math.sqrt(O.default_thresh_sq(trs, T0, T1))
    got = ctx.call("default_thresh", default_thresh, sts)
    ctx.check(abs(float(got) - thr) <= 1e-12 * max(1.0, thr), "default_thresh",
              lambda: "trains of %r spikes: default_thresh=%r, RMS of the pooled ISIs=%r"
              % ([len(t) for t in trs], float(got), thr))
    rok = {"Reconcile": False} if case.get("reconcile_off") else {}
    rik = {"RI": True} if case["ri"] else {}
    for name, fn, args, extra in (
            ("isi_distance", pyspike.isi_distance, (sts[0], sts[1]), {}),
            ("isi_distance_multi", pyspike.isi_distance, (sts,), {}),
            ("spike_distance", pyspike.spike_distance, (sts[0], sts[1]), rik),
            ("spike_sync_multi", pyspike.spike_sync, (sts,), {})):
        pool = sts if len(args) == 1 else list(args)
        t_ = math.sqrt(O.default_thresh_sq(trs if len(args) == 1 else trs[:2], T0, T1))
        ra = float(ctx.call(name + ":auto", fn, *args, MRTS="auto", **rok, **extra))
        rt = float(ctx.call(name + ":explicit", fn, *args, MRTS=t_, **extra))
        # the explicit threshold is the correctly rounded RMS; the library's own float
        # may differ in the last bits, which moves the result by the same relative amount
        ctx.check(abs(ra - rt) <= 1e-9 * max(1.0, abs(rt)), "auto_differs_from_explicit:" + name,
                  lambda: "%s: 'auto' gives %r, MRTS=%r gives %r (trains of %r spikes)"
                  % (name, ra, t_, rt, [len(t) for t in trs]))
        del pool


def run_case(case, ctx):
    ctx.set_backend(case["compiled"])
    sts = ps.trains(case)
    if case.get("long_auto"):
        return _judge_long(case, ctx, sts)
    ps.judge_twice(case, ctx, sts, _judge)


def _judge(case, ctx, sts):
    import pyspike
    from pyspike.isi_lengths import default_thresh
    trs, T0, T1 = ps.fr_trains(case)
    m1, m2 = case["m1"], case["m2"]
    ri = bool(case["ri"])
    mtk = {"max_tau": case["max_tau"]}
    rik = {"RI": True} if ri else {}
    rok = {"Reconcile": False} if case.get("reconcile_off") else {}
    forms = [("bi", (sts[0], sts[1]), [0, 1])]
    forms.append(("multi", (sts,), list(range(len(sts)))))

    for fname, args, involved in forms:
        below = Fr(m1) <= min(_gaps(case, involved))
        res = {}
        for tag, mk in (("omitted", {}), ("zero", {"MRTS": 0}), ("m1", {"MRTS": m1}),
                        ("m2", {"MRTS": m2})):
            r = {}
            r["isi"] = _arr(ctx.call("isi_profile", pyspike.isi_profile, *args, **mk))
            r["spike"] = _arr(ctx.call("spike_profile", pyspike.spike_profile, *args,
                                       **rik, **mk))
            r["sync"] = _arr(ctx.call("spike_sync_profile", pyspike.spike_sync_profile,
                                      *args, **mtk, **mk))
            r["order"] = _arr(ctx.call("order_profile", pyspike.spike_train_order_profile,
                                       *args, **mtk, **mk))
            r["isi_d"] = float(ctx.call("isi_distance", pyspike.isi_distance, *args, **mk))
            r["spike_d"] = float(ctx.call("spike_distance", pyspike.spike_distance, *args,
                                          **rik, **mk))
            r["sync_v"] = float(ctx.call("spike_sync", pyspike.spike_sync, *args, **mtk, **mk))
            res[tag] = r
        # (a) MRTS=0 is exactly the non-adaptive measure
        for k in ("isi", "spike", "sync", "order", "isi_d", "spike_d", "sync_v"):
            ctx.check(_same_exact(res["zero"][k], res["omitted"][k]),
                      "zero_equals_omitted:" + k,
                      lambda: "%s %s: MRTS=0 %r, omitted %r"
                      % (fname, k, res["zero"][k], res["omitted"][k]))
        # (b) monotone in MRTS
        for lo, hi in (("zero", "m1"), ("m1", "m2")):
            A, B = res[lo], res[hi]
            ctx.check(A["isi"]["x"] == B["isi"]["x"] and _le(B["isi"]["y"], A["isi"]["y"]),
                      "isi_profile_increases_with_mrts",
                      lambda: "%s ISI profile: MRTS=%s y=%r, MRTS=%s y=%r"
                      % (fname, lo, A["isi"]["y"], hi, B["isi"]["y"]))
            ctx.check(A["spike"]["x"] == B["spike"]["x"]
                      and _le(B["spike"]["y1"], A["spike"]["y1"])
                      and _le(B["spike"]["y2"], A["spike"]["y2"]),
                      "spike_profile_increases_with_mrts",
                      lambda: "%s SPIKE profile (RI=%r): MRTS=%s y1=%r, MRTS=%s y1=%r"
                      % (fname, ri, lo, A["spike"]["y1"], hi, B["spike"]["y1"]))
            ctx.check(B["isi_d"] <= A["isi_d"] + 1e-12 and B["spike_d"] <= A["spike_d"] + 1e-12,
                      "distance_increases_with_mrts",
                      lambda: "%s: ISI %r -> %r, SPIKE %r -> %r"
                      % (fname, A["isi_d"], B["isi_d"], A["spike_d"], B["spike_d"]))
            ctx.check(A["sync"]["x"] == B["sync"]["x"] and A["sync"]["mp"] == B["sync"]["mp"]
                      and _le(A["sync"]["y"][1:-1], B["sync"]["y"][1:-1], 0.0),
                      "sync_coincidence_removed_by_mrts",
                      lambda: "%s SYNC: MRTS=%s y=%r, MRTS=%s y=%r (x=%r)"
                      % (fname, lo, A["sync"]["y"], hi, B["sync"]["y"], A["sync"]["x"]))
        # (c) an MRTS below every ISI of the trains involved changes nothing
        if below:
            for k in ("isi", "spike", "sync", "order", "isi_d", "spike_d", "sync_v"):
                a_, b_ = res["m1"][k], res["zero"][k]
                same = (a_ == b_) if not isinstance(a_, dict) else \
                    all(_eq(a_[q], b_[q], 1e-12) for q in a_)
                if not isinstance(a_, dict):
                    same = _eq([a_], [b_], 1e-12)
                ctx.check(same, "small_mrts_changes_result:" + k,
                          lambda: "%s %s: MRTS=%r (<= every ISI) gives %r, MRTS=0 gives %r"
                          % (fname, k, m1, a_, b_))
            if fname == "multi":
                thr_f = 0.0
                f0 = ctx.call("filter:zero", pyspike.filter_by_spike_sync, sts, thr_f,
                              MRTS=0, **mtk)
                f1 = ctx.call("filter:m1", pyspike.filter_by_spike_sync, sts, thr_f,
                              MRTS=m1, **mtk)
                ctx.check(len(f0) == len(f1) and all(
                    np.array_equal(np.asarray(u.spikes), np.asarray(v.spikes))
                    for u, v in zip(f0, f1)), "small_mrts_changes_result:filter",
                    lambda: "filter_by_spike_sync(threshold 0): MRTS=%r (<= every ISI) keeps %r, "
                            "MRTS=0 keeps %r" % (m1, [list(v.spikes) for v in f1],
                                                 [list(u.spikes) for u in f0]))
        # (d)+(e) 'auto'
        sel = [trs[k] for k in involved]
        sq = O.default_thresh_sq(sel, T0, T1)
        thr = math.sqrt(sq)
        got = ctx.call("default_thresh", default_thresh, [sts[k] for k in involved])
        ctx.check(abs(float(got) - thr) <= 1e-12 * max(1.0, thr), "default_thresh",
                  lambda: "%s: default_thresh=%r, RMS of pooled ISIs %r=%r"
                  % (fname, float(got), [ps.fl(O.isi_pool(t, T0, T1)) for t in sel], thr))
        for name, fn, extra, tol in (
                ("isi_profile", pyspike.isi_profile, {}, 1e-9),
                ("spike_profile", pyspike.spike_profile, rik, 1e-9),
                ("spike_sync_profile", pyspike.spike_sync_profile, mtk, 0),
                ("spike_train_order_profile", pyspike.spike_train_order_profile, mtk, 0),
                ("isi_distance", pyspike.isi_distance, {}, 1e-9),
                ("spike_distance", pyspike.spike_distance, rik, 1e-9),
                ("spike_sync", pyspike.spike_sync, mtk, 1e-12),
                ("spike_train_order", pyspike.spike_train_order, mtk, 1e-12),
                ("spike_directionality_values", pyspike.spike_directionality_values, mtk, 0)):
            ra = ctx.call(name + ":auto", fn, *args, MRTS="auto", **rok, **extra)
            rt = ctx.call(name + ":explicit", fn, *args, MRTS=thr, **extra)
            ja = _arr(ra) if hasattr(ra, "x") else ra
            jt = _arr(rt) if hasattr(rt, "x") else rt
            if isinstance(ja, dict):
                ok = all(_eq(ja[q], jt[q], tol) for q in ja)
            elif isinstance(ja, list):
                ok = len(ja) == len(jt) and all(_eq(x, y, tol) for x, y in zip(ja, jt))
            else:
                ok = _eq([ja], [jt], tol) or (ja != ja and jt != jt)
            ctx.check(ok, "auto_vs_explicit:" + name,
                      lambda: "%s %s: MRTS='auto' %r, MRTS=%r %r" % (fname, name, ja, thr, jt))
    # 'auto' together with an `indices` selection: the statement pools "the reconciled
    # trains" and does not say whether unselected trains count.  Either reading is accepted,
    # but it has to be ONE reading for all results of the library: every entry point must
    # agree with the explicit threshold pooled over all trains or over the selected ones,
    # and no two entry points may decide differently
    if len(sts) >= 3:
        sel = [len(sts) - 1, 0]
        thr_all = math.sqrt(O.default_thresh_sq(trs, T0, T1))
        thr_sel = math.sqrt(O.default_thresh_sq([trs[k] for k in sel], T0, T1))
        only_all, only_sel = [], []
        for name, fn, extra, tol in (
                ("isi_profile", pyspike.isi_profile, {}, 1e-9),
                ("spike_profile", pyspike.spike_profile, rik, 1e-9),
                ("spike_sync_profile", pyspike.spike_sync_profile, mtk, 0),
                ("spike_train_order_profile", pyspike.spike_train_order_profile, mtk, 0),
                ("isi_distance", pyspike.isi_distance, {}, 1e-9),
                ("spike_distance", pyspike.spike_distance, rik, 1e-9),
                ("spike_sync", pyspike.spike_sync, mtk, 1e-12),
                ("spike_train_order", pyspike.spike_train_order, mtk, 1e-12),
                ("spike_directionality_values", pyspike.spike_directionality_values, mtk, 0)):
            def same(ra, rt):
                ja = _arr(ra) if hasattr(ra, "x") else ra
                jt = _arr(rt) if hasattr(rt, "x") else rt
                if isinstance(ja, dict):
                    return all(_eq(ja[q], jt[q], tol) for q in ja)
                if isinstance(ja, list):
                    return len(ja) == len(jt) and all(_eq(x, y, tol) for x, y in zip(ja, jt))
                return _eq([ja], [jt], tol) or (ja != ja and jt != jt)
            ra = ctx.call(name + ":auto+indices", fn, sts, indices=sel, MRTS="auto", **extra)
            r1 = ctx.call(name + ":explicit+indices", fn, sts, indices=sel, MRTS=thr_all, **extra)
            r2 = ctx.call(name + ":explicit+indices", fn, sts, indices=sel, MRTS=thr_sel, **extra)
            a_, s_ = same(ra, r1), same(ra, r2)
            ctx.check(a_ or s_, "auto_with_indices_matches_no_pooling:" + name,
                      lambda: "%s(indices=%r, MRTS='auto') equals neither MRTS=%r (all trains "
                              "pooled) nor MRTS=%r (selected trains pooled)"
                      % (name, sel, thr_all, thr_sel))
            if a_ and not s_:
                only_all.append(name)
            if s_ and not a_:
                only_sel.append(name)
        ctx.check(not (only_all and only_sel), "auto_with_indices_pooled_inconsistently",
                  lambda: "indices=%r MRTS='auto': %r use the threshold pooled over all trains "
                          "(%r) but %r the one pooled over the selected trains (%r)"
                  % (sel, only_all, thr_all, only_sel, thr_sel))

    # matrices: 'auto' pools the whole list; MRTS monotone entry-wise
    sq = O.default_thresh_sq(trs, T0, T1)
    thr = math.sqrt(sq)
    for name, fn, extra, sign in (
            ("isi_distance_matrix", pyspike.isi_distance_matrix, {}, -1),
            ("spike_distance_matrix", pyspike.spike_distance_matrix, rik, -1),
            ("spike_sync_matrix", pyspike.spike_sync_matrix, mtk, +1)):
        A = np.asarray(ctx.call(name + ":auto", fn, sts, MRTS="auto", **rok, **extra))
        B = np.asarray(ctx.call(name + ":explicit", fn, sts, MRTS=thr, **extra))
        ctx.check(_eq(A, B, 1e-9), "auto_vs_explicit:" + name,
                  lambda: "%s: MRTS='auto' %r, MRTS=%r %r" % (name, A.tolist(), thr, B.tolist()))
        X = np.asarray(ctx.call(name + ":m1", fn, sts, MRTS=m1, **extra))
        Y = np.asarray(ctx.call(name + ":m2", fn, sts, MRTS=m2, **extra))
        ok = _le(Y, X) if sign < 0 else _le(X, Y)
        ctx.check(ok, "matrix_not_monotone:" + name,
                  lambda: "%s: MRTS=%r %r, MRTS=%r %r" % (name, m1, X.tolist(), m2, Y.tolist()))
        Z = np.asarray(ctx.call(name + ":zero", fn, sts, MRTS=0, **extra))
        O_ = np.asarray(ctx.call(name + ":omitted", fn, sts, **extra))
        ctx.check(np.array_equal(Z, O_), "zero_equals_omitted:" + name,
                  lambda: "%s: MRTS=0 %r, omitted %r" % (name, Z.tolist(), O_.tolist()))


def siblings(case):
    """run right after the case in the same process (runner._run_one)"""
    sibs = [ps.sibling_wider_edges(case)]
    extra = ps.sibling_same_count_and_sum(case)
    if extra is not None:
        sibs.append(extra)
    return sibs
