"""C14 - all call forms and index selections of a measure agree."""
import numpy as np
from hypothesis import strategies as st

from .. import gen, ps, measures as M
from ..runner import HypPhase, EnumPhase
from .c13 import _jsonable, _equal

PID = "C14"
RULE = ("cases = (list of 3..6 valid trains on a dyadic grid, an `indices` selection = "
        "random permutation of a random subset of size >= 2 (never only identity "
        "prefixes by construction of the draw), interval, max_tau, numeric MRTS or 'auto', "
        "RI, backend); every case runs ISI, SPIKE, SPIKE-Sync, order (profile, value, "
        "matrix where it exists) and directionality values/matrix through all call forms. "
        "Non-trivial = the selection is not a prefix of the identity. Distinct = distinct "
        "case JSON.")
ASSUMPTIONS = [
    "compiled=true cases execute the .pyx source through the pyxshim transliteration",
    "differential oracle between call forms of the same code; values to 1e-12, time axes "
    "exactly",
    "MRTS='auto' is compared only between forms that pool the same trains (f(a,b) vs "
    "f([a,b]); f(*sub) vs f(sub)); 'auto' together with `indices` is not asserted because "
    "the statement does not say whether unselected trains count for the threshold",
]


@st.composite
def _case(draw, tier):
    nmax = 5 if tier == "quick" else 6
    g = draw(gen.int_train_lists(3, nmax, related=draw(st.booleans()),
                                 max_spikes=6 if tier == "quick" else 12))
    c = gen.to_times(g)
    N = len(c["trains"])
    k = draw(st.integers(2, N))
    c["indices"] = list(draw(st.permutations(list(range(N)))))[:k]
    if draw(st.integers(0, 5)) == 0:
        # the first selected train ends with a spike exactly on t_end, the second starts
        # with one exactly on t_start (two valid trains that "touch" when laid end to end)
        i0, i1 = c["indices"][0], c["indices"][1]
        if c["t1"] not in c["trains"][i0]:
            c["trains"][i0] = c["trains"][i0] + [c["t1"]]
        if c["t0"] not in c["trains"][i1]:
            c["trains"][i1] = [c["t0"]] + c["trains"][i1]
    c["mrts"] = draw(st.one_of(gen.mrts_for(g), st.just("auto")))
    c["ri"] = draw(st.booleans())
    c["max_tau"] = draw(gen.maxtau_for(g))
    c["interval"] = draw(gen.interval_arg_for(g))
    c["compiled"] = draw(st.booleans())
    c["int_times"] = draw(st.booleans())
    return c


def _enum(tier, shard, nshards):
    """three trains on {0..3}, every ordered selection of 2 or 3 indices"""
    import itertools
    G = 3
    n = 1 << (G + 1)
    sels = [list(p) for k in (2, 3) for p in itertools.permutations(range(3), k)]
    idx = 0
    for m1 in range(n):
        for m2 in range(n):
            for m3 in range(n):
                trs = [[float(k) for k in gen.subset_of_mask(m, G)] for m in (m1, m2, m3)]
                for sel in sels:
                    idx += 1
                    if idx % nshards != shard:
                        continue
                    yield dict(t0=0.0, t1=float(G), trains=trs, indices=sel, mrts=None,
                               ri=False, max_tau=None, interval=None, compiled=bool(idx & 1))


PHASES = [
    HypPhase("dyadic", _case, dict(quick=2500, thorough=20000)),
    EnumPhase("grid3x3", _enum,
              lambda tier: "all ordered triples of subsets of {0..3} on [0,3] x all 12 "
                           "ordered index selections of size 2 or 3"),
]


def classify(case):
    idx = case["indices"]
    labels = ["N=%d" % len(case["trains"]), "k=%d" % len(idx),
              "compiled" if case["compiled"] else "fallback"]
    if idx != list(range(len(idx))):
        labels.append("not_identity_prefix")
    if idx != sorted(idx):
        labels.append("indices_out_of_order")
    if case["mrts"] == "auto":
        labels.append("mrts_auto")
    if case["interval"] is not None:
        labels.append("interval")
    labels += sorted(ps.train_kinds(case) & {"empty_train", "identical_trains"})
    return labels


def nontrivial(case):
    idx = case["indices"]
    return idx != list(range(len(idx)))


def run_case(case, ctx):
    import pyspike
    ctx.set_backend(case["compiled"])
    sts = ps.trains(case)
    idx = list(case["indices"])
    sub = [sts[k] for k in idx]
    iv = gen.to_interval(case["interval"])
    auto = case["mrts"] == "auto"

    def cmp(label, ra, rb, what):
        ja, jb = _jsonable(ra), _jsonable(rb)
        ctx.check(_equal(ja, jb), label, lambda: "%s: %r vs %r (indices=%r)"
                  % (what, ja, jb, idx))

    specs = [
        ("isi_profile", pyspike.isi_profile, ("MRTS",), False),
        ("isi_distance", pyspike.isi_distance, ("MRTS",), True),
        ("spike_profile", pyspike.spike_profile, ("MRTS", "RI"), False),
        ("spike_distance", pyspike.spike_distance, ("MRTS", "RI"), True),
        ("spike_sync_profile", pyspike.spike_sync_profile, ("MRTS", "max_tau"), False),
        ("spike_sync", pyspike.spike_sync, ("MRTS", "max_tau"), True),
        ("spike_train_order_profile", pyspike.spike_train_order_profile,
         ("MRTS", "max_tau"), False),
        ("spike_train_order", pyspike.spike_train_order, ("MRTS", "max_tau"), False),
        ("spike_directionality_values", pyspike.spike_directionality_values,
         ("MRTS", "max_tau"), False),
    ]
    for name, fn, keys, has_iv in specs:
        kw = {}
        if "MRTS" in keys and case["mrts"] is not None:
            kw["MRTS"] = case["mrts"]
        if "RI" in keys and case["ri"]:
            kw["RI"] = True
        if "max_tau" in keys:
            kw["max_tau"] = case["max_tau"]
        if has_iv and iv is not None:
            kw["interval"] = iv
        a, b = sub[0], sub[1]
        # two trains / list of the two / (longer list + indices)
        r_ab = ctx.call(name + "(a,b)", fn, a, b, **kw)
        r_l2 = ctx.call(name + "([a,b])", fn, [a, b], **kw)
        cmp("two_args_vs_list:" + name, r_ab, r_l2, "%s(a,b) vs %s([a,b])" % (name, name))
        # the same objects again with reconciliation switched off (valid input): the forms
        # still agree with each other and with the default
        r_ab_off = ctx.call(name + "(a,b,Reconcile=False)", fn, a, b, Reconcile=False, **kw)
        r_l2_off = ctx.call(name + "([a,b],Reconcile=False)", fn, [a, b], Reconcile=False, **kw)
        cmp("reconcile_off_forms:" + name, r_ab_off, r_ab,
            "%s(a,b,Reconcile=False) vs %s(a,b)" % (name, name))
        cmp("reconcile_off_forms:" + name, r_l2_off, r_ab,
            "%s([a,b],Reconcile=False) vs %s(a,b)" % (name, name))
        # a list of exactly the two trains, selected in the opposite order = the two
        # trains passed in the opposite order
        r_ba = ctx.call(name + "(b,a)", fn, b, a, **kw)
        r_l2r = ctx.call(name + "([a,b],indices=[1,0])", fn, [a, b], indices=[1, 0], **kw)
        cmp("swapped_args_vs_two_list_indices:" + name, r_ba, r_l2r,
            "%s(b,a) vs %s([a,b], indices=[1,0])" % (name, name))
        if not auto:
            r_i2 = ctx.call(name + "(L,indices=[i,j])", fn, sts, indices=idx[:2], **kw)
            cmp("two_args_vs_indices:" + name, r_ab, r_i2,
                "%s(a,b) vs %s(L, indices=%r)" % (name, name, idx[:2]))
        # several trains as arguments / the list / indices
        r_sub = ctx.call(name + "(sub)", fn, sub, **kw)
        r_tup = ctx.call(name + "(tuple(sub))", fn, tuple(sub), **kw)
        cmp("tuple_vs_list:" + name, r_tup, r_sub, "%s(tuple) vs %s(list)" % (name, name))
        if has_iv and iv is not None and not isinstance(iv, list):
            r_il = ctx.call(name + "(interval as list)", fn, sub, **dict(kw, interval=list(iv)))
            cmp("interval_list_vs_tuple:" + name, r_il, r_sub,
                "%s(interval=[a,b]) vs %s(interval=(a,b))" % (name, name))
        if len(sub) >= 3:
            r_star = ctx.call(name + "(*sub)", fn, *sub, **kw)
            cmp("star_args_vs_list:" + name, r_star, r_sub,
                "%s(*sub) vs %s(sub)" % (name, name))
        if not auto:
            r_idx = ctx.call(name + "(L,indices)", fn, sts, indices=idx, **kw)
            cmp("indices_vs_sublist:" + name, r_idx, r_sub,
                "%s(L, indices=%r) vs %s(sub)" % (name, idx, name))
    mats = [
        ("isi_distance_matrix", pyspike.isi_distance_matrix, ("MRTS",), True),
        ("spike_distance_matrix", pyspike.spike_distance_matrix, ("MRTS", "RI"), True),
        ("spike_sync_matrix", pyspike.spike_sync_matrix, ("MRTS", "max_tau"), True),
        ("spike_directionality_matrix", pyspike.spike_directionality_matrix,
         ("MRTS", "max_tau"), False),
    ]
    for name, fn, keys, has_iv in mats:
        kw = {}
        if "MRTS" in keys and case["mrts"] is not None:
            kw["MRTS"] = case["mrts"]
        if "RI" in keys and case["ri"]:
            kw["RI"] = True
        if "max_tau" in keys:
            kw["max_tau"] = case["max_tau"]
        if has_iv and iv is not None:
            kw["interval"] = iv
        if auto:
            continue
        r_idx = ctx.call(name + "(L,indices)", fn, sts, indices=idx, **kw)
        r_sub = ctx.call(name + "(sub)", fn, sub, **kw)
        cmp("indices_vs_sublist:" + name, r_idx, r_sub,
            "%s(L, indices=%r) vs %s(sub)" % (name, idx, name))
        ctx.check(np.asarray(r_idx).shape == (len(idx), len(idx)), "matrix_shape:" + name,
                  lambda: "shape %r" % (np.asarray(r_idx).shape,))
    # the caller edits a train of a list it already passed (still valid input) and calls
    # again with the SAME list object: every form must answer for the new content
    new = ps.edit_in_place(sub[0])
    for name, fn, keys, has_iv in specs[:6]:
        kw = {}
        if "MRTS" in keys and case["mrts"] is not None:
            kw["MRTS"] = case["mrts"]
        if "RI" in keys and case["ri"]:
            kw["RI"] = True
        if "max_tau" in keys:
            kw["max_tau"] = case["max_tau"]
        if has_iv and iv is not None:
            kw["interval"] = iv
        r_same = ctx.call(name + "(same list after edit)", fn, sub, **kw)
        r_new = ctx.call(name + "(new list after edit)", fn, list(sub), **kw)
        r_star = ctx.call(name + "(*sub after edit)", fn, *sub, **kw)
        cmp("after_in_place_edit:" + name, r_same, r_new,
            "%s(sub) with the same list object after editing sub[0] in place to %r vs a "
            "new list of the same trains" % (name, new))
        cmp("after_in_place_edit:" + name, r_star, r_new,
            "%s(*sub) after the edit vs %s(list)" % (name, name))
