"""C18 - every valid input yields a finite, well-formed result without error."""
import numpy as np
from hypothesis import strategies as st

from .. import gen, ps, measures as M
from ..runner import HypPhase, EnumPhase
from .c13 import entry_points

PID = "C18"
RULE = ("cases = (list of 2..5 valid trains biased towards degenerate kinds - empty, one "
        "spike, spikes exactly on an edge, identical trains - on a dyadic grid or with "
        "arbitrary doubles, MRTS (also 'auto'), RI, max_tau, sub-interval, normalize, "
        "backend); every case calls all 30 public measure entry points (generic, _bi, "
        "_multi, matrices, directionality) plus the filter. Non-trivial = at least one "
        "degenerate train and >= 3 trains, or two degenerate trains of different kinds. "
        "Distinct = distinct case JSON.")
ASSUMPTIONS = [
    "compiled=true cases execute the .pyx source through the pyxshim transliteration "
    "(out-of-bounds indexing there is reported as a violation: undefined behaviour in C)",
    "validity predicate only: no exception, time axis t_start..t_end strictly increasing "
    "(discrete: non-decreasing with the two edge entries, event times strictly "
    "increasing), consistent array lengths, all values finite",
    "optimal_spike_train_sorting is excluded (needs the simulated-annealing extension by "
    "design); `interval` is passed only where documented as supported",
]


@st.composite
def _degenerate_list(draw, g):
    """replace some trains by degenerate kinds"""
    n = g["n"]
    trs = g["trains"]
    for k in range(len(trs)):
        kind = draw(st.sampled_from(["keep", "keep", "empty", "one_start", "one_end", "one",
                                     "both_edges", "copy_prev", "start_and_one"]))
        if kind == "empty":
            trs[k] = []
        elif kind == "one_start":
            trs[k] = [0]
        elif kind == "one_end":
            trs[k] = [n]
        elif kind == "one":
            trs[k] = [draw(st.integers(0, n))]
        elif kind == "both_edges":
            trs[k] = [0, n]
        elif kind == "copy_prev" and k > 0:
            trs[k] = list(trs[k - 1])
        elif kind == "start_and_one":
            trs[k] = sorted(set([0, draw(st.integers(0, n))]))
    return g


@st.composite
def _dyadic(draw, tier):
    nmax = 4 if tier == "quick" else 5
    g = draw(gen.int_train_lists(2, nmax, related=draw(st.booleans()),
                                 max_spikes=6 if tier == "quick" else 12))
    g = draw(_degenerate_list(g))
    c = gen.to_times(g)
    c["domain"] = "dyadic"
    c["mrts"] = draw(st.one_of(gen.mrts_for(g), st.just("auto")))
    c["max_tau"] = draw(gen.maxtau_for(g))
    c["interval"] = draw(gen.interval_arg_for(g))
    c["ri"] = draw(st.booleans())
    c["normalize"] = draw(st.booleans())
    c["threshold"] = draw(st.sampled_from([0.0, 0.5, 1.0]))
    c["compiled"] = draw(st.booleans())
    c["int_times"] = draw(st.booleans())
    c["reconcile_off"] = draw(st.sampled_from([False, False, True]))
    N = len(c["trains"])
    c["indices"] = draw(st.one_of(st.none(), st.permutations(list(range(N))).map(
        lambda p_: list(p_)[:max(2, N - 1)])))
    return c


@st.composite
def _float(draw, tier):
    c = draw(gen.float_train_lists(2, 3, max_spikes=6 if tier == "quick" else 14))
    ln = c["t1"] - c["t0"]
    c["domain"] = "float"
    c["mrts"] = draw(st.one_of(gen.float_mrts(ln), st.just("auto")))
    c["max_tau"] = draw(st.one_of(st.none(), st.just(0.0),
                                  st.integers(1, 1 << 20).map(lambda k: ln * k / (1 << 20))))
    c["interval"] = None
    c["ri"] = draw(st.booleans())
    c["normalize"] = draw(st.booleans())
    c["threshold"] = draw(st.sampled_from([0.0, 0.5, 1.0]))
    c["compiled"] = draw(st.booleans())
    c["alias_equal"] = draw(st.booleans())
    return c


def _enum(tier, shard, nshards):
    """every combination of degenerate kinds for three trains on [0,4]"""
    kinds = [[], [0.0], [4.0], [2.0], [0.0, 4.0], [0.0, 2.0], [2.0, 4.0], [1.0, 2.0, 3.0]]
    idx = 0
    for a in kinds:
        for b in kinds:
            for c_ in kinds:
                for (mrts, mt, iv) in ((None, None, None), ("auto", 1.0, [0.0, 2.0]),
                                       (3.0, 0.5, [1.0, 4.0])):
                    idx += 1
                    if idx % nshards != shard:
                        continue
                    yield dict(t0=0.0, t1=4.0, trains=[a, b, c_], domain="dyadic", mrts=mrts,
                               max_tau=mt, interval=iv, ri=bool(idx & 2), normalize=bool(idx & 4),
                               threshold=0.5, compiled=bool(idx & 1))


PHASES = [
    HypPhase("dyadic", _dyadic, dict(quick=2500, thorough=25000)),
    HypPhase("float", _float, dict(quick=500, thorough=10000)),
    EnumPhase("degenerate3", _enum,
              lambda tier: "all 8^3 combinations of the train kinds {empty, [t0], [t1], one "
                           "interior, both edges, start+interior, interior+end, three "
                           "interior} for three trains x 3 settings",
              tiers=("quick", "thorough")),
]


def _deg_kinds(case):
    t0, t1 = case["t0"], case["t1"]
    ks = []
    for tr in case["trains"]:
        if not tr:
            ks.append("empty")
        elif len(tr) == 1:
            ks.append("one_on_edge" if tr[0] in (t0, t1) else "one")
        elif tr[0] == t0 or tr[-1] == t1:
            ks.append("edge")
        else:
            ks.append(None)
    trs = case["trains"]
    for a in range(len(trs)):
        for b in range(a + 1, len(trs)):
            if trs[a] == trs[b]:
                ks.append("identical")
    return ks


def classify(case):
    ks = _deg_kinds(case)
    labels = ["N=%d" % len(case["trains"]), "domain:" + case["domain"],
              "compiled" if case["compiled"] else "fallback"]
    labels += sorted(set("has:" + k for k in ks if k))
    if case["interval"] is not None:
        labels.append("interval")
    if case["mrts"] == "auto":
        labels.append("mrts_auto")
    return labels


def nontrivial(case):
    ks = [k for k in _deg_kinds(case) if k]
    if ks and len(case["trains"]) >= 3:
        return True
    return len(set(ks)) >= 2


def run_case(case, ctx):
    import pyspike
    ctx.set_backend(case["compiled"])
    sts = ps.trains(case)
    t0, t1 = case["t0"], case["t1"]
    iv = gen.to_interval(case["interval"])
    takes_interval = {"isi_distance", "isi_distance_bi", "isi_distance_multi",
                      "isi_distance_matrix", "spike_distance", "spike_distance_bi",
                      "spike_distance_multi", "spike_distance_matrix", "spike_sync",
                      "spike_sync_bi", "spike_sync_multi", "spike_sync_matrix"}
    takes_normalize = {"spike_directionality", "spike_directionality_matrix"}
    for name, kind, fn, keys in entry_points():
        kw = {}
        if "MRTS" in keys and case["mrts"] is not None:
            kw["MRTS"] = case["mrts"]
        if "RI" in keys and case["ri"]:
            kw["RI"] = True
        if "max_tau" in keys:
            kw["max_tau"] = case["max_tau"]
        if name in takes_interval and iv is not None:
            kw["interval"] = iv
        if name in takes_normalize:
            kw["normalize"] = bool(case["normalize"])
        if case.get("reconcile_off"):
            kw["Reconcile"] = False       # the input is valid as it stands
        forms = []
        if kind in ("pair", "generic"):
            forms.append(("pair", (sts[0], sts[1])))
            if len(sts) > 2:
                forms.append(("pair_last", (sts[-1], sts[-2])))
        if kind in ("list", "generic"):
            forms.append(("list", (sts,)))
            if case.get("indices") is not None:
                forms.append(("indices", (sts,)))
        for fname, args in forms:
            if fname == "indices":
                kw = dict(kw, indices=list(case["indices"]))
            r = ctx.call(name, fn, *args, **kw)
            what = "%s(%s form) trains=%r settings=%r" % (
                name, fname, case["trains"] if fname in ("list", "indices") else
                [list(a.spikes) for a in args], kw)
            if hasattr(r, "x"):
                msg = M.well_formed(r, t0, t1)
                ctx.check(msg == "", "malformed_profile:" + name,
                          lambda: "%s: %s" % (what, msg))
            elif isinstance(r, list):
                for arr in r:
                    ctx.check(ps.is_finite(arr), "non_finite:" + name,
                              lambda: "%s -> %r" % (what, [list(a) for a in r]))
                if name == "spike_directionality_values":
                    owners = ([sts[k] for k in case["indices"]] if fname == "indices" else
                              (args[0] if fname == "list" else args))
                    ctx.check([len(a) for a in r] == [len(s.spikes) for s in owners],
                              "wrong_lengths:" + name, lambda: what)
            else:
                ctx.check(ps.is_finite(r), "non_finite:" + name,
                          lambda: "%s -> %r" % (what, np.asarray(r).tolist()))
                if np.ndim(r) == 2:
                    n = len(case["indices"]) if fname == "indices" else len(sts)
                    ctx.check(np.asarray(r).shape == (n, n), "matrix_shape:" + name,
                              lambda: "%s -> shape %r" % (what, np.asarray(r).shape))
    # psth: a public function that returns a profile on the recording of the trains
    T = t1 - t0
    for bs in (T, T / 4.0, T / 3.0, 0.375 * T):
        h = ctx.call("psth", pyspike.psth, sts, bs)
        msg = M.well_formed(h, t0, t1)
        ctx.check(msg == "", "malformed_profile:psth",
                  lambda: "psth(bin_size=%r) on [%r,%r]: %s" % (bs, t0, t1, msg))
    out = ctx.call("filter_by_spike_sync", pyspike.filter_by_spike_sync, sts,
                   case["threshold"], max_tau=case["max_tau"],
                   **({} if case["mrts"] is None else {"MRTS": case["mrts"]}))
    ctx.check(len(out) == len(sts) and all(ps.is_finite(o.spikes) and o.t_start == t0
                                           and o.t_end == t1 for o in out),
              "malformed_filter_result", lambda: "%r" % ([list(o.spikes) for o in out],))
