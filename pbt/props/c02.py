"""C02 - SPIKE-profile equals the SPIKE-distance definition (plain, RI, adaptive)."""
from fractions import Fraction as Fr

from hypothesis import strategies as st

from .. import gen, oracle as O, ps
from ..runner import HypPhase, EnumPhase

PID = "C02"
RULE = ("cases = (pair of valid trains, MRTS, RI, evaluation times, backend) on dyadic "
        "grids and with arbitrary doubles. Non-trivial = the profile has >= 3 breakpoints "
        "and the case has a shared spike, or an edge spike, or a one-spike / empty train, "
        "or MRTS above the mean ISI on some piece, or RI. Distinct = distinct case JSON.")
ASSUMPTIONS = [
    "compiled=true cases execute the .pyx source through the pyxshim transliteration; "
    "no C extension is built",
    "oracle = one-sided limits of the instantaneous dissimilarity from global "
    "definitions in exact rational arithmetic (pbt/oracle.py)",
    "values compared to 1e-12 (dyadic) / 1e-9 (float); breakpoints exactly",
]


@st.composite
def _dyadic(draw, tier):
    g = draw(gen.int_train_lists(2, 2, **gen.sizes(tier)))
    c = gen.to_times(g)
    c["mrts"] = draw(gen.mrts_for(g, allow_auto=True))
    c["ri"] = draw(st.booleans())
    c["compiled"] = draw(st.booleans())
    c["mrts_type"] = draw(st.sampled_from([None, None, "int", "np.int64", "np.float32",
                                           "np.float64"]))
    c["domain"] = "dyadic"
    c["prime"] = draw(st.sampled_from([None, None, None, "wider", "same"]))
    q, k0, n = g["q"], g["k0"], g["n"]
    ev = sorted(set([0, n] + [s for tr in g["trains"] for s in tr]))
    pts = draw(st.lists(st.one_of(st.integers(0, 2 * n),
                                  st.sampled_from([2 * e for e in ev])),
                        min_size=1, max_size=5))
    c["times"] = [(2 * k0 + p) / (2 * q) for p in pts]
    return c


@st.composite
def _float(draw, tier):
    c = draw(gen.float_train_lists(2, 2, max_spikes=8 if tier == "quick" else 20))
    ln = c["t1"] - c["t0"]
    c["mrts"] = draw(gen.float_mrts(ln))
    c["ri"] = draw(st.booleans())
    c["compiled"] = draw(st.booleans())
    c["domain"] = "float"
    c["times"] = []
    return c


def _enum(tier, shard, nshards):
    G = 6
    n = 1 << (G + 1)
    for m1 in range(shard, n, nshards):
        a = [float(k) for k in gen.subset_of_mask(m1, G)]
        for m2 in range(n):
            b = [float(k) for k in gen.subset_of_mask(m2, G)]
            for mrts in (0.0, 1.0, 2.0, 3.0, 4.0, 12.0):
                for ri in (False, True):
                    yield dict(t0=0.0, t1=float(G), trains=[a, b], mrts=mrts, ri=ri,
                               compiled=bool((m1 + m2) & 1), domain="dyadic", times=[])


PHASES = [
    HypPhase("dyadic", _dyadic, dict(quick=8000, thorough=40000)),
    HypPhase("float", _float, dict(quick=1600, thorough=20000)),
    EnumPhase("grid6", _enum,
              lambda tier: "all ordered pairs of subsets of {0..6} on [0,6] x MRTS in "
                           "{0,1,2,3,4,12} x RI, backend alternating with mask parity"),
]


def _bites(case):
    trs, T0, T1 = ps.fr_trains(case)
    m = ps.mrts_exact(case)
    if m <= 0:
        return False
    x = O.breakpoints(trs, T0, T1)
    for k in range(len(x) - 1):
        mid = (x[k] + x[k + 1]) / 2
        if m > (O.isi_len(trs[0], mid, T0, T1) + O.isi_len(trs[1], mid, T0, T1)) / 2:
            return True
    return False


def classify(case):
    labels = sorted(ps.train_kinds(case))
    labels.append("compiled" if case["compiled"] else "fallback")
    labels.append("domain:" + case.get("domain", "dyadic"))
    labels.append("RI" if case["ri"] else "plain")
    if case["mrts"]:
        labels.append("mrts_positive")
        if _bites(case):
            labels.append("mrts_bites")
    return labels


def nontrivial(case):
    trs, T0, T1 = ps.fr_trains(case)
    if len(O.breakpoints(trs, T0, T1)) < 3:
        return False
    k = ps.train_kinds(case)
    if k & {"shared_spike", "spike_on_t_start", "spike_on_t_end",
            "empty_train", "one_spike_train"}:
        return True
    return bool(case["ri"]) or _bites(case)


def run_case(case, ctx):
    import pyspike
    ctx.set_backend(case["compiled"])
    sts = ps.trains(case)
    ps.prime(ctx, case, sts, (pyspike.spike_profile, pyspike.spike_distance))
    ps.judge_twice(case, ctx, sts, _judge)


def _judge(case, ctx, sts):
    import pyspike
    tol = ps.tol_of(case)
    st1, st2 = sts
    (a, b), T0, T1 = ps.fr_trains(case)
    m = ps.mrts_exact(case)
    ri = bool(case["ri"])
    kw = ps.kw(case, ("MRTS", "RI"))
    f = ctx.call("spike_profile", pyspike.spike_profile, st1, st2, **kw)
    x, y1, y2 = O.spike_profile(a, b, T0, T1, m, ri)
    ctx.check(len(f.x) == len(x) and ps.exact_eq(f.x, x), "breakpoints",
              lambda: "x=%r expected %r" % (list(f.x), ps.fl(x)))
    ctx.check(len(f.y1) == len(y1) and len(f.y2) == len(y2), "value_count",
              lambda: "lens %d,%d expected %d" % (len(f.y1), len(f.y2), len(y1)))
    ctx.check(ps.all_close(f.y1, y1, tol), "right_limits",
              lambda: ps.first_diff(f.y1, y1, tol) + " x=%r" % ps.fl(x))
    ctx.check(ps.all_close(f.y2, y2, tol), "left_limits",
              lambda: ps.first_diff(f.y2, y2, tol) + " x=%r" % ps.fl(x))
    # same breakpoints as the ISI profile
    fi = ctx.call("isi_profile", pyspike.isi_profile, st1, st2,
                  **ps.kw(case, ("MRTS",)))
    ctx.check(list(fi.x) == list(f.x), "same_breakpoints_as_isi",
              lambda: "isi x=%r spike x=%r" % (list(fi.x), list(f.x)))
    # zero on both sides of a shared spike time
    shared = set(a) & set(b)
    for k, t in enumerate(x):
        if t in shared:
            if k > 0:
                ctx.check(abs(float(f.y2[k - 1])) <= tol, "zero_at_shared_spike",
                          lambda: "left limit at %r is %r" % (float(t), float(f.y2[k - 1])))
            if k < len(x) - 1:
                ctx.check(abs(float(f.y1[k])) <= tol, "zero_at_shared_spike",
                          lambda: "right limit at %r is %r" % (float(t), float(f.y1[k])))
    # distance = exact integral of the definition / T
    model = O.PW(x, y1, y2)
    dref = model.integral() / (T1 - T0)
    d = ctx.call("spike_distance", pyspike.spike_distance, st1, st2, **kw)
    ctx.check(ps.close(d, dref, tol), "distance",
              lambda: "spike_distance=%r expected %r" % (float(d), float(dref)))
    # evaluation at times: scalar and list
    times = case.get("times") or []
    if times:
        exp = [O.spike_at(a, b, T0, T1, Fr(t), m, ri) for t in times]
        got_list = ctx.call("eval_list", f, list(times))
        ctx.check(ps.all_close(list(got_list), exp, tol), "eval_list",
                  lambda: ps.first_diff(list(got_list), exp, tol) + " times=%r" % times)
        for t, e in zip(times, exp):
            got = ctx.call("eval_scalar", f, t)
            ctx.check(ps.close(got, e, tol), "eval_scalar",
                      lambda: "f(%r)=%r expected %r" % (t, float(got), float(e)))


def siblings(case):
    """run right after the case in the same process (runner._run_one)"""
    sibs = [ps.sibling_wider_edges(case)]
    extra = ps.sibling_same_count_and_sum(case)
    if extra is not None:
        sibs.append(extra)
    return sibs
