"""C10 - integral, average and evaluation of piecewise functions are exact."""
from fractions import Fraction as Fr

import math

import numpy as np
from hypothesis import strategies as st

from .. import gen, oracle as O, ps
from ..runner import HypPhase, EnumPhase

PID = "C10"
RULE = ("cases = (piecewise-constant or piecewise-linear function with 1..8 (thorough 1..20) "
        "pieces on a dyadic grid, values k/8 in [-5,5]; up to 3 intervals a<b<c-chains whose "
        "ends are drawn from {breakpoints, midpoints, half-grid points, end points}, also "
        "both ends inside one piece; evaluation times on and off breakpoints). Non-trivial "
        "= >= 3 pieces and some interval has an end exactly on an interior breakpoint or "
        "both ends inside one piece. Distinct = distinct case JSON.")
ASSUMPTIONS = [
    "oracle = exact trapezoid integration and one-sided limits over Fractions "
    "(pbt/oracle.PW); constant pieces compared to 1e-12, linear pieces to 1e-12 relative "
    "to max(1, |value|) (one true division in the interpolation)",
    "only in-contract intervals t_start <= a < b <= t_end are generated; times are "
    "passed as float or list (ndarray times are rejected by the code by design)",
]


EPS = 2.0 ** -24


@st.composite
def pw_arrays(draw, kind, q, k0, n, max_pieces, pool=None, near_x=None):
    """breakpoints in grid units 0..n -> dict x, y / y1, y2 (floats).
    near_x: breakpoints (floats) of another function on the same support; the
    style 'near' then produces breakpoints that coincide with those up to
    +-2^-24 - almost but not exactly shared breakpoints."""
    interior = list(range(1, n))
    styles = ["random", "single", "pool", "early", "late", "random", "antisym"]
    if near_x is not None and len(near_x) > 2:
        styles += ["near", "near"]
    style = draw(st.sampled_from(styles))
    if style == "antisym" and n >= 4:
        # a sign-changing function whose integral is EXACTLY zero: breakpoints mirrored
        # about the centre, mirrored values with opposite sign, 0 on the middle piece
        left = sorted(draw(st.lists(st.integers(1, (n - 1) // 2), min_size=1,
                                    max_size=max(1, min(3, (max_pieces - 1) // 2)),
                                    unique=True)))
        xs_ = [0] + left + [n - p_ for p_ in reversed(left)] + [n]
        vals = draw(st.lists(st.integers(-40, 40).filter(lambda v: v != 0).map(
            lambda v: v / 8.0), min_size=len(left), max_size=len(left)))
        ys = vals + [0.0] + [-v for v in reversed(vals)]
        f = dict(kind=kind, x=[(k0 + p_) / q for p_ in xs_])
        if kind == "pwc":
            f["y"] = ys
        else:
            f["y1"] = list(ys)
            f["y2"] = list(ys)
        return f
    if style == "near":
        xs = [near_x[0]]
        for v in near_x[1:-1]:
            d = draw(st.sampled_from([0.0, EPS, -EPS, 0.0, 3 * EPS, "ulp+", "ulp-", "2ulp+"]))
            if d == "ulp+":         # the very next double: a piece one ulp wide
                w = math.nextafter(v, math.inf)
            elif d == "ulp-":
                w = math.nextafter(v, -math.inf)
            elif d == "2ulp+":
                w = math.nextafter(math.nextafter(v, math.inf), math.inf)
            else:
                w = v + d
            if xs[-1] < w < near_x[-1]:
                xs.append(w)
        xs.append(near_x[-1])
        val = st.integers(-40, 40).map(lambda v: v / 8.0)
        m = len(xs) - 1
        f = dict(kind=kind, x=xs)
        if kind == "pwc":
            f["y"] = draw(st.lists(val, min_size=m, max_size=m))
        else:
            f["y1"] = draw(st.lists(val, min_size=m, max_size=m))
            f["y2"] = draw(st.lists(val, min_size=m, max_size=m))
        return f
    cap = min(max_pieces - 1, len(interior))
    if style == "single" or cap <= 0:
        pts = []
    elif style == "pool" and pool:
        cand = [p for p in pool if 0 < p < n]
        pts = draw(st.lists(st.sampled_from(cand), max_size=cap, unique=True)) if cand else []
    elif style == "early":
        cand = [p for p in interior if p <= n // 2] or interior
        pts = draw(st.lists(st.sampled_from(cand), min_size=1, max_size=cap, unique=True))
    elif style == "late":
        cand = [p for p in interior if p > n // 2] or interior
        pts = draw(st.lists(st.sampled_from(cand), min_size=1, max_size=cap, unique=True))
    else:
        k = draw(st.sampled_from([c for c in (2, 4, 1, 7, 3, 12, 19) if c <= cap] or [cap]))
        pts = draw(st.lists(st.sampled_from(interior), min_size=k, max_size=k, unique=True))
    xs = [0] + sorted(pts) + [n]
    val = st.integers(-40, 40).map(lambda v: v / 8.0)
    m = len(xs) - 1
    f = dict(kind=kind, x=[(k0 + p) / q for p in xs])
    if kind == "pwc":
        f["y"] = draw(st.lists(val, min_size=m, max_size=m))
    else:
        f["y1"] = draw(st.lists(val, min_size=m, max_size=m))
        cont = draw(st.booleans())
        f["y2"] = draw(st.lists(val, min_size=m, max_size=m))
        if cont:     # continuous function: left limit of piece k+1 = right limit of k
            for k in range(m - 1):
                f["y2"][k] = f["y1"][k + 1]
    return f


@st.composite
def _case(draw, tier):
    q = draw(st.sampled_from([1, 2, 8]))
    k0 = draw(st.integers(-8 * q, 8 * q))
    n = draw(st.integers(1, 40 if tier == "quick" else 60))
    kind = draw(st.sampled_from(["pwc", "pwl"]))
    if draw(st.integers(0, 11)) == 0:
        k0 += (1 << 20) * q          # a support far away from zero
    f = draw(pw_arrays(kind, q, k0, n,
                       draw(st.sampled_from([8, 8, 8, 20])) if tier == "quick" else 20))
    bps = [round((v * q - k0)) for v in f["x"]]
    x0, xN = f["x"][0], f["x"][-1]
    cands = sorted(set(f["x"] + [(a + b) / 2.0 for a, b in zip(f["x"], f["x"][1:])]))
    # points 2^-24 beside a breakpoint: not a breakpoint, but "close" to one
    near = [v + d for v in f["x"] for d in (EPS, -EPS) if x0 <= v + d <= xN]

    def pt():
        return draw(st.one_of(st.sampled_from(cands),
                              st.integers(0, 2 * n).map(lambda p: (2 * k0 + p) / (2.0 * q)),
                              st.sampled_from(near), st.sampled_from([x0, xN])))
    chains = []
    for _ in range(draw(st.integers(1, 3))):
        pts = sorted(set(pt() for _ in range(draw(st.sampled_from([2, 3, 2, 4])))))
        if len(pts) < 2:
            pts = [x0, xN]
        chains.append(pts)
    # one chain with both ends in the same piece
    k = draw(st.integers(0, len(bps) - 2))
    lo, hi = 4 * bps[k], 4 * bps[k + 1]
    a = draw(st.integers(lo, hi - 1))
    b = draw(st.integers(a + 1, hi))
    chains.append([(4 * k0 + a) / (4.0 * q), (4 * k0 + b) / (4.0 * q)])
    times = [pt() for _ in range(draw(st.integers(1, 6)))]
    if q == 1 and draw(st.sampled_from([False, False, False, True])):
        # the same function written with Python ints (integer breakpoints; values
        # integer or not): queries must not depend on how the numbers were typed
        f["int_x"] = True
        f["int_y"] = draw(st.booleans())
        if f["int_y"]:
            for key in ("y", "y1", "y2"):
                if key in f:
                    f[key] = [float(int(v)) for v in f[key]]
    return dict(f=f, chains=chains, times=times, shuffle=draw(st.booleans()))


def _enum(tier, shard, nshards):
    """functions on [0,4] with every breakpoint subset of {1,2,3}, fixed distinct values,
    every interval with quarter-integer... half-integer ends, every half-integer time"""
    idx = 0
    vals = [1.5, -2.0, 0.25, 3.0]
    vals2 = [-1.0, 2.5, 0.5, -0.75]
    for kind in ("pwc", "pwl"):
        for mask in range(8):
            xs = [0.0] + [float(k) for k in (1, 2, 3) if mask >> (k - 1) & 1] + [4.0]
            m = len(xs) - 1
            f = dict(kind=kind, x=xs)
            if kind == "pwc":
                f["y"] = vals[:m]
            else:
                f["y1"] = vals[:m]
                f["y2"] = vals2[:m]
            for a in range(0, 8):
                for b in range(a + 1, 9):
                    idx += 1
                    if idx % nshards != shard:
                        continue
                    chain = [a / 2.0, b / 2.0]
                    c = [a / 2.0, (a + b) / 4.0, b / 2.0]
                    yield dict(f=f, chains=[chain, c],
                               times=[k / 2.0 for k in range(9)])


PHASES = [
    HypPhase("dyadic", _case, dict(quick=10000, thorough=80000)),
    EnumPhase("small", _enum,
              lambda tier: "pwc/pwl on [0,4], all 8 breakpoint subsets of {1,2,3}, every "
                           "interval [a/2,b/2] (plus its bisection chain), all 9 "
                           "half-integer times", tiers=("quick", "thorough")),
]


def _model(f):
    if f["kind"] == "pwc":
        return O.PW(f["x"], f["y"])
    return O.PW(f["x"], f["y1"], f["y2"])


def _real(f):
    import pyspike
    if f.get("int_x"):
        x = [int(v) for v in f["x"]]
        conv = (lambda L: [int(v) for v in L]) if f.get("int_y") else (lambda L: list(L))
        if f["kind"] == "pwc":
            return pyspike.PieceWiseConstFunc(x, conv(f["y"]))
        return pyspike.PieceWiseLinFunc(x, conv(f["y1"]), conv(f["y2"]))
    if f["kind"] == "pwc":
        return pyspike.PieceWiseConstFunc(np.array(f["x"]), np.array(f["y"]))
    return pyspike.PieceWiseLinFunc(np.array(f["x"]), np.array(f["y1"]), np.array(f["y2"]))


def classify(case):
    f = case["f"]
    labels = ["kind:" + f["kind"], "pieces=%d" % min(len(f["x"]) - 1, 9)]
    if f.get("int_x"):
        labels.append("integer_breakpoints")
    xs = set(f["x"][1:-1])
    for ch in case["chains"]:
        for a, b in zip(ch, ch[1:]):
            if a in xs or b in xs:
                labels.append("interval_end_on_interior_breakpoint")
            if _same_piece(f, a, b):
                labels.append("interval_inside_one_piece")
            if a == f["x"][0] or b == f["x"][-1]:
                labels.append("interval_end_on_end_point")
    for t in case["times"]:
        if t not in f["x"] and any(abs(t - v) <= 2 * EPS for v in f["x"]):
            labels.append("time_close_to_breakpoint")
        if t in xs:
            labels.append("time_on_interior_breakpoint")
        elif t in (f["x"][0], f["x"][-1]):
            labels.append("time_on_end_point")
    return sorted(set(labels))


def _same_piece(f, a, b):
    x = f["x"]
    for k in range(len(x) - 1):
        if x[k] <= a and b <= x[k + 1]:
            return True
    return False


def nontrivial(case):
    f = case["f"]
    if len(f["x"]) - 1 < 3:
        return False
    xs = set(f["x"][1:-1])
    for ch in case["chains"]:
        for a, b in zip(ch, ch[1:]):
            if a in xs or b in xs or _same_piece(f, a, b):
                return True
    return False


def run_case(case, ctx):
    f = case["f"]
    real = _real(f)
    model = _model(f)
    tol = 1e-12
    scale = max([1.0] + [abs(v) for k in ("y", "y1", "y2") for v in f.get(k, [])])
    span = f["x"][-1] - f["x"][0]

    def close(a, b, extra=1.0):
        a = float(a)
        return a == a and abs(a - float(b)) <= tol * scale * max(1.0, span) * extra

    full = ctx.call("integral_none", real.integral)
    ctx.check(close(full, model.integral()), "integral_full",
              lambda: "integral()=%r exact %r" % (float(full), float(model.integral())))
    whole = ctx.call("integral_support", real.integral, (f["x"][0], f["x"][-1]))
    ctx.check(close(whole, model.integral()), "integral_over_support",
              lambda: "integral((x0,xN))=%r exact %r" % (float(whole), float(model.integral())))
    av = ctx.call("avrg_none", real.avrg)
    ctx.check(close(av, model.integral() / Fr(span)), "avrg_full",
              lambda: "avrg()=%r exact %r" % (float(av), float(model.integral() / Fr(span))))
    for ch in case["chains"]:
        parts = []
        for a, b in zip(ch, ch[1:]):
            got = ctx.call("integral", real.integral, (a, b))
            ref = model.integral(Fr(a), Fr(b))
            ctx.check(close(got, ref), "integral",
                      lambda: "%s x=%r integral((%r,%r))=%r exact %r"
                      % (f["kind"], f["x"], a, b, float(got), float(ref)))
            ga = ctx.call("avrg", real.avrg, (a, b))
            ctx.check(close(ga, ref / (Fr(b) - Fr(a)), 1.0 / min(1.0, b - a)), "avrg",
                      lambda: "avrg((%r,%r))=%r exact %r"
                      % (a, b, float(ga), float(ref / (Fr(b) - Fr(a)))))
            gl = ctx.call("avrg_list_form", real.avrg, [a, b])
            ctx.check(float(gl) == float(ga), "avrg_list_vs_tuple",
                      lambda: "avrg([a,b])=%r avrg((a,b))=%r" % (gl, ga))
            parts.append(float(got))
        if len(ch) > 2:
            tot = ctx.call("integral", real.integral, (ch[0], ch[-1]))
            ctx.check(close(tot, sum(parts), 4), "integral_additivity",
                      lambda: "integral((%r,%r))=%r, sum over the chain %r = %r"
                      % (ch[0], ch[-1], float(tot), ch, sum(parts)))
            ivs = [(a, b) for a, b in zip(ch, ch[1:])]
            # every second sub-interval: a genuine list of disjoint intervals
            sub = ivs[::2]
            if case.get("shuffle"):
                sub = sub[::-1]          # the order of the intervals must not matter
            gm = ctx.call("avrg_interval_list", real.avrg, sub)
            ref = sum(model.integral(Fr(a), Fr(b)) for a, b in sub) / \
                sum(Fr(b) - Fr(a) for a, b in sub)
            ctx.check(close(gm, ref, 1.0 / min(1.0, sum(b - a for a, b in sub))),
                      "avrg_interval_list",
                      lambda: "avrg(%r)=%r exact %r" % (sub, float(gm), float(ref)))
            # intervals of a list may touch, overlap or contain one another: still the
            # summed integrals over the summed lengths (each interval counts in full)
            lists = [ivs, [(ch[0], ch[-1]), (ch[1], ch[-1])], [(ch[0], ch[-1]), (ch[0], ch[1])]]
            if len(ch) > 3:
                lists += [[(ch[0], ch[2]), (ch[1], ch[3])], [(ch[0], ch[3]), (ch[1], ch[2])],
                          [(ch[1], ch[3]), (ch[0], ch[2])]]
            for sub in lists:
                gm = ctx.call("avrg_interval_list", real.avrg, list(sub))
                ref = sum(model.integral(Fr(a), Fr(b)) for a, b in sub) / \
                    sum(Fr(b) - Fr(a) for a, b in sub)
                ctx.check(close(gm, ref, 4.0 / min(1.0, min(b - a for a, b in sub))),
                          "avrg_interval_list_overlapping",
                          lambda: "avrg(%r)=%r, summed integrals / summed lengths = %r"
                          % (sub, float(gm), float(ref)))
    # evaluation
    times = list(case["times"])
    exp = [model.value(Fr(t)) for t in times]
    gl = ctx.call("eval_list", real, times)
    ctx.check(len(gl) == len(times) and all(close(g, e) for g, e in zip(gl, exp)),
              "eval_list",
              lambda: "%s x=%r f(%r)=%r expected %r"
              % (f["kind"], f["x"], times, list(map(float, gl)), ps.fl(exp)))
    for t, e, g1 in zip(times, exp, gl):
        g = ctx.call("eval_scalar", real, t)
        ctx.check(close(g, e), "eval_scalar",
                  lambda: "%s x=%r f(%r)=%r expected %r" % (f["kind"], f["x"], t, float(g),
                                                            float(e)))
        ctx.check(close(g, float(g1)), "eval_scalar_vs_list",
                  lambda: "f(%r)=%r but f([..])=%r" % (t, float(g), float(g1)))
    # plottable data traces the pieces
    xp, yp = ctx.call("get_plottable_data", real.get_plottable_data)
    x = f["x"]
    ex = [x[0]] + [v for k in range(1, len(x) - 1) for v in (x[k], x[k])] + [x[-1]]
    if f["kind"] == "pwc":
        ey = [v for v in f["y"] for _ in (0, 1)]
    else:
        ey = [v for a, b in zip(f["y1"], f["y2"]) for v in (a, b)]
    ctx.check(list(map(float, xp)) == ex and list(map(float, yp)) == ey, "plottable_data",
              lambda: "x_plot=%r y_plot=%r expected %r %r" % (list(xp), list(yp), ex, ey))
    # the caller post-processes the arrays it was given (in place: they are the caller's)
    # and asks again: the plottable arrays still trace the pieces of the function
    if isinstance(xp, np.ndarray) and isinstance(yp, np.ndarray) and xp.dtype == float \
            and yp.dtype == float:
        xp *= 1000.0
        yp += 2.0
        xp2, yp2 = ctx.call("get_plottable_data_again", real.get_plottable_data)
        ctx.check(list(map(float, xp2)) == ex and list(map(float, yp2)) == ey,
                  "plottable_data_after_caller_edited_the_first_result",
                  lambda: "second call: x_plot=%r y_plot=%r expected %r %r"
                  % (list(xp2), list(yp2), ex, ey))
    # the function object is unchanged by all of this
    ctx.check(list(real.x) == f["x"], "object_modified", "x changed")
    # the same object after it has been scaled in place: the queries made above must
    # not have left anything behind that still describes the unscaled function
    c = 3.0
    ctx.call("mul_scalar", real.mul_scalar, c)
    ms = model.scale(Fr(c))
    for ch in case["chains"]:
        a, b = ch[0], ch[-1]
        got = ctx.call("integral_after_scaling", real.integral, (a, b))
        ref = ms.integral(Fr(a), Fr(b))
        ctx.check(close(got, ref, c), "integral_after_mul_scalar",
                  lambda: "%s x=%r: after mul_scalar(%r) integral((%r,%r))=%r exact %r"
                  % (f["kind"], f["x"], c, a, b, float(got), float(ref)))
    full2 = ctx.call("integral_none_after_scaling", real.integral)
    ctx.check(close(full2, ms.integral(), c), "integral_after_mul_scalar",
              lambda: "after mul_scalar(%r) integral()=%r exact %r"
              % (c, float(full2), float(ms.integral())))
    if times:
        g2 = ctx.call("eval_after_scaling", real, times)
        ctx.check(all(close(g, c * float(e), c) for g, e in zip(g2, exp)),
                  "evaluation_after_mul_scalar",
                  lambda: "after mul_scalar(%r): f(%r)=%r" % (c, times, list(map(float, g2))))
