"""C13 - inputs are normalised before use and never modified."""
import importlib
import os
import tempfile
from fractions import Fraction as Fr

import numpy as np
from hypothesis import strategies as st

from .. import gen, oracle as O, ps, measures as M
from ..runner import HypPhase, EnumPhase

PID = "C13"
RULE = ("cases = (a valid list of 2..4 trains on a dyadic grid, then made messy per train: "
        "spike times randomly permuted, existing times duplicated, own edges that contain "
        "the own spikes but differ between trains, optionally spikes outside the common "
        "interval by at least one grid step; keyword settings incl. MRTS='auto'; backend). "
        "Every case calls all 30 measure entry points (generic, _bi, _multi, matrices, "
        "directionality, filter) three ways - messy input, oracle-reconciled input, "
        "oracle-reconciled input with Reconcile=False - plus reconcile_spike_trains, "
        "merge_spike_trains, psth and save_spike_trains_to_txt, and snapshots every input "
        "object before and after each call. Non-trivial = some train is both unsorted and "
        "has a repeated time, or the trains have differing edges. Distinct = distinct JSON.")
ASSUMPTIONS = [
    "compiled=true cases execute the .pyx source through the pyxshim transliteration",
    "expected reconciled list = sorted set of the input times inside [min start, max end] "
    "computed by the oracle; spikes closer than 1e-6 to the outside of the common interval "
    "are not generated (the statement grants that tolerance)",
    "object identity of returned trains is not part of the statement; contents are",
]


@st.composite
def _case(draw, tier):
    nmax = 3 if tier == "quick" else 4
    g = draw(gen.int_train_lists(2, nmax, related=draw(st.booleans()),
                                 max_spikes=6 if tier == "quick" else 12))
    if draw(st.integers(0, 11)) == 0:
        # one long regular train (65..300 spikes) beside the drawn ones
        k = draw(st.sampled_from([65, 66, 100, 129, 130, 257, 300]))
        per = draw(st.sampled_from([1, 2]))
        n_ = max(g["n"], per * k + draw(st.integers(0, 9)))
        a = draw(st.integers(0, n_ - per * (k - 1)))
        g = dict(g, n=n_, trains=[[a + per * j for j in range(k)]] + list(g["trains"])[:nmax - 1])
    q, k0, n = g["q"], g["k0"], g["n"]
    trains = []
    for tr in g["trains"]:
        sp = list(tr)
        if len(sp) >= 33 and draw(st.booleans()):
            # a long train with ONE local defect - a repeated spike or two neighbours
            # swapped - preferably across a power-of-two index (blocked "is it sorted?"
            # scans compare inside blocks only)
            js = [j for j in (31, 32, 63, 64, 127, 128, 255, 256) if j + 1 < len(sp)]
            j = draw(st.one_of(st.sampled_from(js), st.integers(0, len(sp) - 2)))
            if draw(st.booleans()):
                sp = sp[:j + 1] + [sp[j]] + sp[j + 1:]
            else:
                sp[j], sp[j + 1] = sp[j + 1], sp[j]
            trains.append(dict(spikes=sp, e0=0, e1=n))
            continue
        # duplicates
        if sp and draw(st.sampled_from([True, True, False])):
            sp += draw(st.lists(st.sampled_from(sp), min_size=1, max_size=3))
        # order
        if draw(st.sampled_from([True, True, False])):
            sp = list(draw(st.permutations(sp)))
        else:
            sp = sorted(sp)
        # own edges (contain own spikes; at least one train keeps each global edge)
        lo = min([0] + sp)
        hi = max([n] + sp)
        own = draw(st.sampled_from(["global", "global", "tight", "inner"]))
        if own == "global" or not sp:
            e0, e1 = 0, n
        elif own == "tight":
            e0, e1 = min(sp), max(sp)
            if e0 == e1:
                e0, e1 = (e0 - 1, e1) if e0 > 0 else (e0, e1 + 1)
        else:
            e0 = draw(st.integers(0, min(min(sp), n - 1)))
            e1 = draw(st.integers(max(max(sp), e0 + 1), n))
        trains.append(dict(spikes=sp, e0=e0, e1=e1))
    # make sure the union of the edges is [0, n]
    trains[draw(st.integers(0, len(trains) - 1))]["e0"] = 0
    trains[draw(st.integers(0, len(trains) - 1))]["e1"] = n
    # optionally spikes outside the common interval
    if draw(st.sampled_from([False, False, True])):
        k = draw(st.integers(0, len(trains) - 1))
        # at least one coarse grid step (>= 1/64) outside: far from the 1e-6
        # tolerance that reconcile grants
        u = (1 << 14) if g.get("fine") else 1
        out = draw(st.lists(st.one_of(st.integers(-5, -1), st.integers(1, 5)),
                            min_size=1, max_size=2))
        out = [o * u if o < 0 else n + o * u for o in out]
        pos = draw(st.integers(0, len(trains[k]["spikes"])))
        trains[k]["spikes"] = trains[k]["spikes"][:pos] + out + trains[k]["spikes"][pos:]
    c = dict(t0=k0 / q, t1=(k0 + n) / q,
             messy=[dict(spikes=[(k0 + s) / q for s in t["spikes"]],
                         edges=[(k0 + t["e0"]) / q, (k0 + t["e1"]) / q]) for t in trains])
    if draw(st.integers(0, 5)) == 0:
        # a spike a few 1e-7 beyond the common interval: inside by the 1e-6 tolerance the
        # statement grants, so reconciliation keeps it, at its own time, exactly once -
        # also next to a spike sitting exactly on that edge
        k = draw(st.integers(0, len(trains) - 1))
        eps = draw(st.sampled_from([2.0 ** -21, 3 * 2.0 ** -22]))
        v = c["t1"] + eps if draw(st.booleans()) else c["t0"] - eps
        sp = c["messy"][k]["spikes"]
        sp.insert(draw(st.integers(0, len(sp))), v)
        if draw(st.booleans()):
            sp.insert(draw(st.integers(0, len(sp))), c["t1"] if v > c["t1"] else c["t0"])
    c["mrts"] = draw(st.one_of(gen.mrts_for(g), st.just("auto")))
    c["ri"] = draw(st.booleans())
    c["max_tau"] = draw(gen.maxtau_for(g))
    c["threshold"] = draw(st.sampled_from([0.0, 0.5, 0.25, 1.0]))
    # a selection through `indices` for the list forms (a proper subset when there are
    # three or more trains: unselected trains still take part in the reconciliation)
    N = len(trains)
    c["indices"] = list(draw(st.permutations(list(range(N)))))[:draw(st.integers(2, max(2, N - 1)))]
    # psth uses the edges of the first train: bin not larger than that recording
    c["bin"] = (trains[0]["e1"] - trains[0]["e0"]) / q / draw(st.sampled_from([1, 2, 4]))
    c["compiled"] = draw(st.booleans())
    c["ctor_unsorted"] = draw(st.sampled_from([False, False, True]))
    # an averaging interval inside the COMMON recording (it may well reach beyond the
    # own edges of some of the messy trains), for the list forms of the scalar measures
    if draw(st.booleans()):
        a_ = draw(st.integers(0, n - 1))
        b_ = draw(st.integers(a_ + 1, n))
        c["interval"] = [(k0 + a_) / q, (k0 + b_) / q]
    else:
        c["interval"] = None
    return c


PHASES = [
    HypPhase("messy", _case, dict(quick=2000, thorough=15000)),
]


def _expected(case, first=None):
    """oracle-reconciled spike lists on the common edges (of the first `first`
    trains: a bivariate call only sees its two arguments)"""
    ms = case["messy"] if first is None else case["messy"][:first]
    t0 = min(m["edges"][0] for m in ms)
    t1 = max(m["edges"][1] for m in ms)
    # (generated times are either inside, at least 1/64 outside, or less than 7.2e-7
    # outside: never near the 1e-6 border of the tolerance itself)
    return t0, t1, [sorted(set(s for s in m["spikes"] if t0 - 1e-6 < s < t1 + 1e-6)) for m in ms]


def _unsorted(sp):
    return any(a > b for a, b in zip(sp, sp[1:]))


def classify(case):
    labels = ["N=%d" % len(case["messy"]), "compiled" if case["compiled"] else "fallback"]
    for m in case["messy"]:
        sp = m["spikes"]
        if _unsorted(sp):
            labels.append("unsorted_train")
        if len(set(sp)) < len(sp):
            labels.append("duplicate_times")
        if _unsorted(sp) and len(set(sp)) < len(sp):
            labels.append("unsorted_and_duplicates")
        if any(s < case["t0"] - 1e-6 or s > case["t1"] + 1e-6 for s in sp):
            labels.append("spike_outside_common_interval")
        if any(case["t0"] - 1e-6 < s < case["t0"] or case["t1"] < s < case["t1"] + 1e-6
               for s in sp):
            labels.append("spike_outside_within_tolerance")
    if len(set(tuple(m["edges"]) for m in case["messy"])) > 1:
        labels.append("differing_edges")
    if case["mrts"] == "auto":
        labels.append("mrts_auto")
    if case.get("indices") is not None and len(case["indices"]) < len(case["messy"]):
        labels.append("indices_proper_subset")
    return sorted(set(labels))


def nontrivial(case):
    l = set(classify(case))
    return bool(l & {"unsorted_and_duplicates", "differing_edges"})


def _mods():
    return dict(isi=importlib.import_module("pyspike.isi_distance"),
                spike=importlib.import_module("pyspike.spike_distance"),
                sync=importlib.import_module("pyspike.spike_sync"),
                dirn=importlib.import_module("pyspike.spike_directionality"))


TAKES_INTERVAL = {"isi_distance", "isi_distance_multi", "isi_distance_matrix",
                  "spike_distance", "spike_distance_multi", "spike_distance_matrix",
                  "spike_sync", "spike_sync_multi", "spike_sync_matrix"}


def entry_points():
    """(name, kind, fn, keyword keys) - kind: 'pair' | 'list' | 'generic'"""
    m = _mods()
    I, S, Y, D = m["isi"], m["spike"], m["sync"], m["dirn"]
    kI, kS, kC = ("MRTS",), ("MRTS", "RI"), ("MRTS", "max_tau")
    E = [
        ("isi_profile", "generic", I.isi_profile, kI),
        ("isi_distance", "generic", I.isi_distance, kI),
        ("isi_profile_bi", "pair", I.isi_profile_bi, kI),
        ("isi_distance_bi", "pair", I.isi_distance_bi, kI),
        ("isi_profile_multi", "list", I.isi_profile_multi, kI),
        ("isi_distance_multi", "list", I.isi_distance_multi, kI),
        ("isi_distance_matrix", "list", I.isi_distance_matrix, kI),
        ("spike_profile", "generic", S.spike_profile, kS),
        ("spike_distance", "generic", S.spike_distance, kS),
        ("spike_profile_bi", "pair", S.spike_profile_bi, kS),
        ("spike_distance_bi", "pair", S.spike_distance_bi, kS),
        ("spike_profile_multi", "list", S.spike_profile_multi, kS),
        ("spike_distance_multi", "list", S.spike_distance_multi, kS),
        ("spike_distance_matrix", "list", S.spike_distance_matrix, kS),
        ("spike_sync_profile", "generic", Y.spike_sync_profile, kC),
        ("spike_sync", "generic", Y.spike_sync, kC),
        ("spike_sync_profile_bi", "pair", Y.spike_sync_profile_bi, kC),
        ("spike_sync_bi", "pair", Y.spike_sync_bi, kC),
        ("spike_sync_profile_multi", "list", Y.spike_sync_profile_multi, kC),
        ("spike_sync_multi", "list", Y.spike_sync_multi, kC),
        ("spike_sync_matrix", "list", Y.spike_sync_matrix, kC),
        ("spike_train_order_profile", "generic", D.spike_train_order_profile, kC),
        ("spike_train_order", "generic", D.spike_train_order, kC),
        ("spike_train_order_profile_bi", "pair", D.spike_train_order_profile_bi, kC),
        ("spike_train_order_bi", "pair", D.spike_train_order_bi, kC),
        ("spike_train_order_profile_multi", "list", D.spike_train_order_profile_multi, kC),
        ("spike_train_order_multi", "list", D.spike_train_order_multi, kC),
        ("spike_directionality", "pair", D.spike_directionality, kC),
        ("spike_directionality_values", "list", D.spike_directionality_values, kC),
        ("spike_directionality_matrix", "list", D.spike_directionality_matrix, kC),
    ]
    return E


def _jsonable(res):
    import pyspike
    if isinstance(res, pyspike.DiscreteFunc):
        # the values of the two framing entries "never count": compare times, and
        # values / multiplicities of the events only
        a = M.profile_arrays(res)
        return dict(x=a["x"], y=a["y"][1:-1], mp=a["mp"][1:-1])
    if isinstance(res, (pyspike.PieceWiseConstFunc, pyspike.PieceWiseLinFunc)):
        return M.profile_arrays(res)
    if isinstance(res, pyspike.SpikeTrain):
        return dict(spikes=[float(v) for v in res.spikes], e=[res.t_start, res.t_end])
    if isinstance(res, (list, tuple)):
        return [_jsonable(r) for r in res]
    return np.asarray(res, dtype=float).tolist()


def _equal(a, b, tol=1e-12):
    if isinstance(a, dict):
        return isinstance(b, dict) and a.keys() == b.keys() and \
            all(_equal(a[k], b[k], tol) for k in a)
    if isinstance(a, list):
        return isinstance(b, list) and len(a) == len(b) and \
            all(_equal(x, y, tol) for x, y in zip(a, b))
    a = float(a)
    b = float(b)
    if a != a or b != b:
        return a != a and b != b      # finiteness is C18's business, not C13's
    return abs(a - b) <= tol * max(1.0, abs(b))


def _snap(sts):
    return [(s.spikes.tobytes(), str(s.spikes.dtype), s.spikes.shape, s.t_start, s.t_end)
            for s in sts]


def run_case(case, ctx):
    import pyspike
    ctx.set_backend(case["compiled"])

    def messy():
        if case.get("ctor_unsorted"):
            # the way the text loader builds trains: is_sorted=False, the constructor sorts
            return [pyspike.SpikeTrain(np.array(m["spikes"], dtype=float), list(m["edges"]),
                                       is_sorted=False) for m in case["messy"]]
        return [pyspike.SpikeTrain(np.array(m["spikes"], dtype=float), list(m["edges"]))
                for m in case["messy"]]
    t0, t1, exp = _expected(case)

    def clean(first=None):
        a0, a1, ex = _expected(case, first)
        return [pyspike.SpikeTrain(np.array(sp, dtype=float), [a0, a1]) for sp in ex]

    # ---- reconcile_spike_trains itself
    from pyspike.spikes import reconcile_spike_trains
    inp = messy()
    before = _snap(inp)
    rec = ctx.call("reconcile", reconcile_spike_trains, inp)
    ctx.check(_snap(inp) == before, "input_modified:reconcile_spike_trains",
              "reconcile_spike_trains changed its input")
    ctx.check(len(rec) == len(inp), "reconcile:count", lambda: "%d trains" % len(rec))
    for k, (r, e) in enumerate(zip(rec, exp)):
        ctx.check(r.t_start == t0 and r.t_end == t1, "reconcile:edges",
                  lambda: "train %d edges [%r,%r] expected [%r,%r]"
                  % (k, r.t_start, r.t_end, t0, t1))
        ctx.check([float(v) for v in r.spikes] == e, "reconcile:spikes",
                  lambda: "train %d: %r expected %r (input %r)"
                  % (k, list(r.spikes), e, case["messy"][k]["spikes"]))
        ctx.check(r is not inp[k] and not np.shares_memory(np.asarray(r.spikes),
                                                           inp[k].spikes),
                  "reconcile:not_fresh", "returned train shares data with the input")
    rec2 = ctx.call("reconcile_twice", reconcile_spike_trains, rec)
    ctx.check(_snap(rec2) == _snap(rec), "reconcile:not_idempotent",
              lambda: "second pass changed %r" % ([list(r.spikes) for r in rec],))

    # a spike beyond the edge (within the granted tolerance) is kept by the
    # reconciliation - that much the statement says and the first block has judged; what
    # a measure makes of a spike outside its recording is not defined
    # ---- the caller goes on working with the reconciled trains: crops the recording of
    # all of them (edges narrowed in place), later swaps two spike times in place - and
    # reconciles again each time
    if t1 > t0:
        mid = t0 + (t1 - t0) / 2
        for r in rec:
            r.t_end = mid
        rec3 = ctx.call("reconcile_after_crop", reconcile_spike_trains, rec)
        exp3 = [[v for v in e if t0 - 1e-6 < v < mid + 1e-6] for e in exp]
        for k, (r, e) in enumerate(zip(rec3, exp3)):
            ctx.check(r.t_start == t0 and r.t_end == mid and [float(v) for v in r.spikes] == e,
                      "reconcile:after_in_place_crop",
                      lambda: "train %d reconciled, then t_end set to %r in place, reconciled "
                              "again: %r on [%r,%r], expected %r"
                      % (k, mid, list(r.spikes), r.t_start, r.t_end, e))
        for k, r in enumerate(rec3):
            if len(r.spikes) >= 2 and isinstance(r.spikes, np.ndarray):
                r.spikes[0], r.spikes[-1] = r.spikes[-1], r.spikes[0]
        rec4 = ctx.call("reconcile_after_swap", reconcile_spike_trains, rec3)
        for k, (r, e) in enumerate(zip(rec4, exp3)):
            ctx.check([float(v) for v in r.spikes] == e, "reconcile:after_in_place_swap",
                      lambda: "train %d: first and last spike swapped in place after a "
                              "reconciliation, reconciled again: %r expected %r"
                      % (k, list(r.spikes), e))

    near_out = "spike_outside_within_tolerance" in classify(case)
    # ---- every measure entry point, three ways
    for name, kind, fn, keys in entry_points():
        kw = {}
        if "MRTS" in keys and case["mrts"] is not None:
            kw["MRTS"] = case["mrts"]
        if "RI" in keys and case["ri"]:
            kw["RI"] = True
        if "max_tau" in keys:
            kw["max_tau"] = case["max_tau"]
        forms = []
        if kind in ("pair", "generic"):
            forms.append(("pair", lambda L: (L[0], L[1])))
        if kind in ("list", "generic"):
            forms.append(("list", lambda L: (L,)))
            if case.get("indices") is not None:
                forms.append(("indices", lambda L: (L,)))
        for fname, mk in forms:
            if fname == "indices":
                kw = dict(kw, indices=list(case["indices"]))
            if fname in ("list", "indices") and name in TAKES_INTERVAL and \
                    case.get("interval") is not None:
                kw = dict(kw, interval=tuple(case["interval"]))
            a = messy()
            sa = _snap(a)
            if near_out:
                # undefined result (see below): not even "returns" is demanded, only that
                # the trains passed in stay as they are
                try:
                    with __import__("pbt.env", fromlist=["quiet"]).quiet():
                        fn(*mk(a), **kw)
                except Exception:
                    pass
                ctx.check(_snap(a) == sa, "input_modified:" + name,
                          lambda: "%s (%s form) changed the spike trains passed to it"
                          % (name, fname))
                continue
            r_messy = ctx.call(name + ":messy", fn, *mk(a), **kw)
            ctx.check(_snap(a) == sa, "input_modified:" + name,
                      lambda: "%s (%s form) changed the spike trains passed to it"
                      % (name, fname))
            nsel = 2 if fname == "pair" else None
            b = clean(nsel)
            sb = _snap(b)
            r_clean = ctx.call(name + ":clean", fn, *mk(b), **kw)
            ctx.check(_snap(b) == sb, "input_modified:" + name,
                      lambda: "%s (%s form) changed the spike trains passed to it"
                      % (name, fname))
            c_ = clean(nsel)
            sc = _snap(c_)
            r_off = ctx.call(name + ":reconcile_off", fn, *mk(c_), Reconcile=False, **kw)
            ctx.check(_snap(c_) == sc, "input_modified:" + name,
                      lambda: "%s (Reconcile=False) changed the spike trains" % name)
            jm, jc, jo = _jsonable(r_messy), _jsonable(r_clean), _jsonable(r_off)
            sel = (lambda L: L[:2]) if fname == "pair" else (lambda L: L)
            ctx.check(_equal(jm, jc), "messy_vs_reconciled:" + name,
                      lambda: "%s(%s form): messy input %r gives %r, reconciled input %r "
                              "gives %r" % (name, fname, sel(case["messy"]), jm,
                                            _expected(case, nsel), jc))
            ctx.check(_equal(jo, jc), "reconcile_off_differs:" + name,
                      lambda: "%s(%s form) on valid input: Reconcile=False gives %r, "
                              "default gives %r" % (name, fname, jo, jc))

    # ---- "No function ever changes the trains passed to it" - also with reconciliation
    # switched off on input that is valid up to the granted 1e-6 tolerance (a first /
    # last spike a few 1e-7 outside the edges); results are not judged here
    _, _, ex_all = _expected(case)
    shifted = []
    for k, sp in enumerate(ex_all):
        sp = list(sp)
        if sp and k % 2 == 0 and sp[0] == t0:
            sp[0] = t0 - 4e-7
        if sp and k % 2 == 1 and sp[-1] == t1:
            sp[-1] = t1 + 4e-7
        shifted.append(sp)
    for name, kind, fn, keys in entry_points():
        b = messy()
        sb = _snap(b)
        try:
            with __import__("pbt.env", fromlist=["quiet"]).quiet():
                if kind == "pair":
                    fn(b[0], b[1], Reconcile=False)
                else:
                    fn(b, Reconcile=False)
        except Exception:
            pass          # unreconciled messy input: the result is not defined, only
        ctx.check(_snap(b) == sb, "input_modified:" + name,       # ... the inputs must stay
                  lambda: "%s(Reconcile=False) on unsorted input changed the trains passed "
                          "to it: %r -> %r" % (name, [m["spikes"] for m in case["messy"]],
                                               [list(x.spikes) for x in b]))
    if shifted != [list(x) for x in ex_all]:
        for name, kind, fn, keys in entry_points():
            b = [pyspike.SpikeTrain(np.array(sp, dtype=float), [t0, t1]) for sp in shifted]
            sb = _snap(b)
            try:
                with __import__("pbt.env", fromlist=["quiet"]).quiet():
                    if kind == "pair":
                        fn(b[0], b[1], Reconcile=False)
                    else:
                        fn(b, Reconcile=False)
            except Exception:
                pass
            ctx.check(_snap(b) == sb, "input_modified:" + name,
                      lambda: "%s(Reconcile=False) changed the spike trains passed to it: "
                              "%r -> %r" % (name, shifted, [list(x.spikes) for x in b]))

    # ---- filter (a measure entry point too)
    a = messy()
    sa = _snap(a)
    fkw = {"max_tau": case["max_tau"]}
    if case["mrts"] is not None:
        fkw["MRTS"] = case["mrts"]
    if near_out:
        try:
            with __import__("pbt.env", fromlist=["quiet"]).quiet():
                pyspike.filter_by_spike_sync(a, case["threshold"], **fkw)
        except Exception:
            pass
        ctx.check(_snap(a) == sa, "input_modified:filter_by_spike_sync", "filter changed input")
        return
    fm = ctx.call("filter:messy", pyspike.filter_by_spike_sync, a, case["threshold"], **fkw)
    ctx.check(_snap(a) == sa, "input_modified:filter_by_spike_sync", "filter changed input")
    fc = ctx.call("filter:clean", pyspike.filter_by_spike_sync, clean(), case["threshold"],
                  **fkw)
    fo = ctx.call("filter:reconcile_off", pyspike.filter_by_spike_sync, clean(),
                  case["threshold"], Reconcile=False, **fkw)
    ctx.check(_equal(_jsonable(fm), _jsonable(fc)), "messy_vs_reconciled:filter_by_spike_sync",
              lambda: "messy %r -> %r ; reconciled -> %r"
              % (case["messy"], _jsonable(fm), _jsonable(fc)))
    ctx.check(_equal(_jsonable(fo), _jsonable(fc)), "reconcile_off_differs:filter_by_spike_sync",
              lambda: "%r vs %r" % (_jsonable(fo), _jsonable(fc)))

    # ---- functions that take spike trains but are not measures: no mutation
    a = messy()
    sa = _snap(a)
    ctx.call("merge", pyspike.merge_spike_trains, a)
    ctx.check(_snap(a) == sa, "input_modified:merge_spike_trains", "merge changed input")
    ctx.call("psth", pyspike.psth, a, case["bin"])
    ctx.check(_snap(a) == sa, "input_modified:psth", "psth changed input")
    with tempfile.TemporaryDirectory() as d:
        ctx.call("save", pyspike.save_spike_trains_to_txt, a, os.path.join(d, "x.txt"))
    ctx.check(_snap(a) == sa, "input_modified:save_spike_trains_to_txt", "save changed input")
    from pyspike.isi_lengths import default_thresh
    ctx.call("default_thresh", default_thresh, a)
    ctx.check(_snap(a) == sa, "input_modified:default_thresh", "default_thresh changed input")
