"""C05 - every scalar measure equals the average of its profile over the same
interval."""
from fractions import Fraction as Fr

from hypothesis import strategies as st

from .. import gen, oracle as O, ps, measures as M
from ..runner import HypPhase, EnumPhase
from .c04 import indices_for

PID = "C05"
RULE = ("cases = (list of 2..5 valid trains on a dyadic grid, measure in {ISI, SPIKE, SYNC, "
        "ORDER}, MRTS, RI, max_tau, averaging interval in {None, one sub-interval, list of "
        "disjoint sub-intervals} with ends on edges / spike times / midpoints / half-grid "
        "points (ORDER: None only - other intervals are documented as unsupported), call "
        "form, backend). Non-trivial = >= 3 trains, or an interval end strictly inside the "
        "recording. Distinct = distinct case JSON.")
ASSUMPTIONS = [
    "compiled=true cases execute the .pyx source (incl. the single-pass distance routines) "
    "through the pyxshim transliteration",
    "two routes through different code are compared (distance function vs profile.avrg) "
    "and the average is recomputed from the profile arrays by the exact function-class "
    "model, so a defect common to both routes in integral/avrg is still caught",
    "spike-train order with zero total multiplicity is only required to agree between "
    "distance function and profile average (the statement fixes the convention for "
    "SPIKE-Sync only)",
]


@st.composite
def _case(draw, tier):
    nmax = draw(st.sampled_from([5, 5, 5, 5, 5, 6, 7])) if tier == "quick" else 7
    sz = dict(max_spikes=8 if tier == "quick" else 20)
    g = draw(gen.int_train_lists(2, nmax, related=draw(st.sampled_from([False, True])), **sz))
    c = gen.to_times(g)
    c["measure"] = draw(st.sampled_from(M.MEASURES))
    c["mrts"] = draw(gen.mrts_for(g, allow_auto=True))
    c["ri"] = draw(st.booleans())
    c["max_tau"] = draw(gen.maxtau_for(g))
    c["interval"] = None if c["measure"] == "ORDER" else draw(gen.interval_arg_for(g))
    # the order functions document `interval` as not implemented (NotImplementedError);
    # should a tree accept it, the value has to be the profile's average over it
    c["order_interval"] = draw(gen.interval_arg_for(g)) if c["measure"] == "ORDER" else None
    c["form"] = draw(st.sampled_from(["list", "args", "indices"]))
    if c["form"] == "indices":
        # a selection through `indices` (any order): distance and profile of
        # the same selection
        c["indices"] = draw(indices_for(len(c["trains"]), allow_none=False))
    c["compiled"] = draw(st.booleans())
    c["alias_equal"] = draw(st.booleans())
    # the scalar is asked for with Reconcile=False (valid input), the profile as usual
    c["reconcile_off"] = draw(st.sampled_from([False, False, True]))
    return c


def _enum(tier, shard, nshards):
    """pairs on {0..5}: every interval with half-integer ends, ISI/SPIKE/SYNC"""
    G = 5
    n = 1 << (G + 1)
    ivs = [None] + [[a / 2.0, b / 2.0] for a in range(0, 2 * G + 1)
                    for b in range(a + 1, 2 * G + 1)]
    idx = 0
    for m1 in range(n):
        a = [float(k) for k in gen.subset_of_mask(m1, G)]
        for m2 in range(m1, n):
            b = [float(k) for k in gen.subset_of_mask(m2, G)]
            idx += 1
            if idx % nshards != shard:
                continue
            for meas in ("ISI", "SPIKE", "SYNC"):
                for iv in ivs:
                    yield dict(t0=0.0, t1=float(G), trains=[a, b], measure=meas, mrts=None,
                               ri=False, max_tau=None, interval=iv, form="args",
                               compiled=bool(idx & 1))


PHASES = [
    HypPhase("dyadic", _case, dict(quick=7000, thorough=60000)),
    EnumPhase("grid5_intervals", _enum,
              lambda tier: "all unordered pairs of subsets of {0..5} on [0,5] x measure in "
                           "{ISI,SPIKE,SYNC} x every interval [a/2,b/2], 0<=a<b<=10, and None"),
]


def classify(case):
    labels = ["measure:" + case["measure"], "N=%d" % len(case["trains"]),
              "compiled" if case["compiled"] else "fallback", "form:" + case["form"]]
    if case["mrts"] == "auto":
        labels.append("mrts_auto")
    if case.get("indices") is not None and case["indices"] != sorted(case["indices"]):
        labels.append("indices_not_ascending")
    iv = case["interval"]
    if iv is None:
        labels.append("interval:none")
    elif isinstance(iv[0], list):
        labels.append("interval:list")
    else:
        labels.append("interval:one")
        ev = set([case["t0"], case["t1"]] + [s for tr in case["trains"] for s in tr])
        labels.append("interval_end_on_event" if (iv[0] in ev or iv[1] in ev)
                      else "interval_ends_between_events")
    return labels


def nontrivial(case):
    if len(case["trains"]) >= 3:
        return True
    iv = case["interval"]
    if iv is None:
        return False
    ends = [e for p in (iv if isinstance(iv[0], list) else [iv]) for e in p]
    return any(case["t0"] < e < case["t1"] for e in ends)


def run_case(case, ctx):
    ctx.set_backend(case["compiled"])
    sts = ps.trains(case)
    fn = M.funcs(case["measure"])
    kw = M.kwargs_for(case["measure"], case)
    iv = gen.to_interval(case["interval"])
    args = tuple(sts)
    if case["form"] in ("list", "indices"):
        args = (sts,)
    if case["form"] == "indices":
        kw["indices"] = list(case["indices"])
    dkw = dict(kw)
    if fn["interval"]:
        dkw["interval"] = iv
    if case.get("reconcile_off"):
        dkw["Reconcile"] = False
    d = ctx.call("distance", fn["dist"], *args, **dkw)
    f = ctx.call("profile", fn["profile"], *args, **kw)
    # averaging over a very short interval divides an integral (absolute rounding
    # error ~ 1e-16 * recording length) by the interval length: the tolerance
    # grows with recording length / averaging length
    tol = 1e-10
    if case["interval"] is not None:
        ivs = M.intervals_list(case["interval"])
        ln = float(sum(b - a for a, b in ivs))
        tol = max(tol, 1e-12 * (case["t1"] - case["t0"]) / ln)
    model = M.model_of(f)
    if fn["kind"] in ("pwc", "pwl"):
        a = ctx.call("profile.avrg", f.avrg, iv)
        ctx.check(ps.close(d, a, tol), "distance_vs_profile_avrg",
                  lambda: "%s distance=%r profile.avrg=%r interval=%r"
                  % (case["measure"], float(d), float(a), case["interval"]))
        ref = M.model_avrg(model, case["interval"])
        ctx.check(ps.close(d, ref, tol), "distance_vs_exact_average",
                  lambda: "%s distance=%r exact average of the returned profile=%r "
                          "interval=%r" % (case["measure"], float(d), float(ref),
                                           case["interval"]))
    else:
        y, mp = M.model_avrg(model, case["interval"])
        a = ctx.call("profile.avrg", f.avrg, iv)
        if mp > 0:
            ctx.check(ps.close(d, y / mp, tol), "value_vs_profile_sums",
                      lambda: "%s value=%r sum(y)/sum(mp)=%r interval=%r"
                      % (case["measure"], float(d), float(y / mp), case["interval"]))
        elif case["measure"] == "SYNC":
            ctx.check(float(d) == 1.0, "sync_convention_no_spikes",
                      lambda: "spike_sync=%r with no spike in the interval" % (d,))
        ctx.check(ps.close(d, a, tol), "value_vs_profile_avrg",
                  lambda: "%s value=%r profile.avrg=%r interval=%r"
                  % (case["measure"], float(d), float(a), case["interval"]))
    if case["measure"] == "ORDER" and case.get("order_interval") is not None:
        ivo = gen.to_interval(case["order_interval"])
        from ..env import quiet
        from ..runner import watchdog
        try:
            with quiet(), watchdog():
                d_iv = fn["dist"](*args, interval=ivo, **kw)
        except NotImplementedError:
            ctx.notes["order_with_interval_not_implemented"] += 1
        except Exception as e:
            ctx.fail("order_with_interval:exception:" + type(e).__name__, repr(e))
        else:
            y_, mp_ = M.model_avrg(model, case["order_interval"])
            if mp_ > 0:
                ctx.check(ps.close(d_iv, y_ / mp_, 1e-10), "order_value_vs_profile_sums_interval",
                          lambda: "spike_train_order over %r: %r, but the profile sums inside it "
                                  "give %r" % (case["order_interval"], float(d_iv),
                                               float(y_ / mp_)))
    if case["form"] != "args" and not case.get("_edited"):
        # the caller edits one of the trains in the list it already passed and asks
        # again with the same list object: the relation must hold for the new content
        new = ps.edit_in_place(sts[0])
        d2 = ctx.call("distance_after_edit", fn["dist"], *args, **dkw)
        f2 = ctx.call("profile_after_edit", fn["profile"], *args, **kw)
        a2 = ctx.call("profile.avrg_after_edit", f2.avrg, iv)
        ctx.check(ps.close(d2, a2, tol) or (float(d2) != float(d2) and float(a2) != float(a2)),
                  "after_in_place_edit",
                  lambda: "%s: after editing train 0 in place (now %r) and calling again with "
                          "the same list: value=%r, average of its profile=%r (before the "
                          "edit: %r)" % (case["measure"], new, float(d2), float(a2), float(d)))
