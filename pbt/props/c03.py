"""C03 - SPIKE-Sync profile marks exactly the mutually coincident spikes."""
from fractions import Fraction as Fr

from hypothesis import strategies as st

from .. import gen, oracle as O, ps
from ..runner import HypPhase, EnumPhase

PID = "C03"
RULE = ("cases = (pair of valid trains on a dyadic grid, MRTS, max_tau, backend); MRTS and "
        "max_tau are drawn from tie values of the case (an ISI, 2*ISI, a spike-time "
        "difference between the trains, half-grid values) as well as {omitted, 0, larger "
        "than the recording}. Non-trivial = both trains have spikes and the case has a "
        "pair with |dt| == tau exactly, or a shared spike, or a coincident pair together "
        "with MRTS > 0 or max_tau > 0 or involving a first/last spike. Distinct = "
        "distinct case JSON.")
ASSUMPTIONS = [
    "compiled=true cases execute the .pyx source through the pyxshim transliteration; "
    "no C extension is built",
    "oracle tests ALL N1 x N2 spike pairs against the window definition in exact "
    "rational arithmetic; all quantities are dyadic so the float code decides every tie "
    "exactly",
    "values of the two framing edge entries are not asserted (the statement only says "
    "they frame the profile)",
    "float domain: the oracle is exact on the double values; a case with a pair whose |dt| "
    "lies within 1e-9 (relative to the time scale) of its window is counted ambiguous and "
    "not judged (the float code may legitimately round across the tie)",
]


@st.composite
def _dyadic(draw, tier):
    g = draw(gen.int_train_lists(2, 2, **gen.sizes(tier)))
    c = gen.to_times(g)
    c["mrts"] = draw(gen.mrts_for(g, allow_auto=True))
    c["max_tau"] = draw(gen.maxtau_for(g))
    c["compiled"] = draw(st.booleans())
    c["mrts_type"] = draw(st.sampled_from([None, None, "int", "np.int64", "np.float32",
                                           "np.float64"]))
    c["domain"] = "dyadic"
    c["prime"] = draw(st.sampled_from([None, None, None, "wider", "same"]))
    return c


@st.composite
def _float(draw, tier):
    """arbitrary (non-grid) doubles: decisions are judged only when the exact
    margin between |dt| and tau is far above rounding (else counted ambiguous)"""
    c = draw(gen.float_train_lists(2, 2, max_spikes=8 if tier == "quick" else 16))
    ln = c["t1"] - c["t0"]
    c["mrts"] = draw(gen.float_mrts(ln))
    c["max_tau"] = draw(st.one_of(st.none(), st.just(0.0),
                                  st.integers(1, 1 << 20).map(lambda k: ln * k / (1 << 20))))
    c["compiled"] = draw(st.booleans())
    c["domain"] = "float"
    return c


def _ambiguous(case):
    """a pair whose |dt| is within rounding distance of its window"""
    (a, b), T0, T1 = ps.fr_trains(case)
    m, mt = _settings(case)
    scale = max(abs(float(T0)), abs(float(T1)), 1.0)
    for i in range(len(a)):
        for j in range(len(b)):
            tau = O.window(a, i, b, j, T0, T1, m, mt)
            d = abs(a[i] - b[j])
            if abs(float(d) - float(tau)) <= 1e-9 * scale and d != 0:
                return True
    return False


def _enum(tier, shard, nshards):
    G = 7
    n = 1 << (G + 1)
    for m1 in range(shard, n, nshards):
        a = [float(k) for k in gen.subset_of_mask(m1, G)]
        for m2 in range(n):
            b = [float(k) for k in gen.subset_of_mask(m2, G)]
            for mrts in (0.0, 1.0, 2.0, 3.0, 4.0, 14.0):
                for mt in (None, 0.5, 1.0, 2.0):
                    yield dict(t0=0.0, t1=float(G), trains=[a, b], mrts=mrts,
                               max_tau=mt, compiled=bool((m1 + m2) & 1),
                               domain="dyadic")


PHASES = [
    HypPhase("dyadic", _dyadic, dict(quick=10000, thorough=60000)),
    HypPhase("float", _float, dict(quick=1500, thorough=20000)),
    EnumPhase("grid7", _enum,
              lambda tier: "all ordered pairs of subsets of {0..7} on [0,7] x MRTS in "
                           "{0,1,2,3,4,14} x max_tau in {None,0.5,1,2}, backend "
                           "alternating with mask parity"),
]


def _settings(case):
    m = ps.mrts_exact(case)
    mt = case.get("max_tau")
    mt = Fr(mt) if mt else None
    return m, mt


def _facts(case):
    (a, b), T0, T1 = ps.fr_trains(case)
    m, mt = _settings(case)
    pairs, ties = O.coincidences(a, b, T0, T1, m, mt)
    return a, b, T0, T1, m, mt, pairs, ties


def classify(case):
    a, b, T0, T1, m, mt, pairs, ties = _facts(case)
    labels = sorted(ps.train_kinds(case))
    labels.append("compiled" if case["compiled"] else "fallback")
    labels.append("domain:" + case.get("domain", "dyadic"))
    if ties:
        labels.append("exact_tie_dt_eq_tau")
    if pairs:
        labels.append("has_coincidence")
    if m > 0:
        labels.append("mrts_positive")
    if mt:
        labels.append("max_tau_positive")
    if case.get("max_tau") is None:
        labels.append("max_tau_none")
    return labels


def nontrivial(case):
    a, b, T0, T1, m, mt, pairs, ties = _facts(case)
    if not a or not b:
        return False
    if ties or (set(a) & set(b)):
        return True
    if pairs and (m > 0 or mt):
        return True
    for i, j in pairs:
        if i in (0, len(a) - 1) or j in (0, len(b) - 1):
            return True
    return False


def single_impl(ctx, compiled):
    if compiled and ctx.shim.ok:
        return ctx.shim.fn("cython_profiles", "coincidence_single_profile_cython")
    from pyspike.cython.python_backend import coincidence_single_python
    return coincidence_single_python


def run_case(case, ctx):
    import numpy as np
    import pyspike
    if case.get("domain") == "float" and _ambiguous(case):
        ctx.notes["float_case_within_rounding_of_a_tie_not_judged"] += 1
        return
    ctx.set_backend(case["compiled"])
    sts = ps.trains(case)
    ps.prime(ctx, case, sts, (pyspike.spike_sync_profile, pyspike.spike_sync))
    ps.judge_twice(case, ctx, sts, _judge)


def _judge(case, ctx, sts):
    import numpy as np
    import pyspike
    st1, st2 = sts
    a, b, T0, T1, m, mt, pairs, ties = _facts(case)
    kw = ps.kw(case)
    ctx.check(O.one_to_one(pairs), "oracle_pairs_not_one_to_one", "model error?")
    exp = O.sync_profile(a, b, T0, T1, m, mt)
    f = ctx.call("spike_sync_profile", pyspike.spike_sync_profile, st1, st2, **kw)
    n = len(exp) + 2
    ctx.check(len(f.x) == n and len(f.y) == n and len(f.mp) == n, "array_lengths",
              lambda: "lens %d/%d/%d expected %d" % (len(f.x), len(f.y), len(f.mp), n))
    ctx.check(float(f.x[0]) == case["t0"] and float(f.x[-1]) == case["t1"], "edge_times",
              lambda: "x[0]=%r x[-1]=%r" % (f.x[0], f.x[-1]))
    ctx.check(ps.exact_eq(f.x[1:-1], [e[0] for e in exp]), "event_times",
              lambda: "x=%r expected %r" % (list(f.x[1:-1]), ps.fl([e[0] for e in exp])))
    ctx.check(ps.exact_eq(f.mp[1:-1], [Fr(e[2]) for e in exp]), "multiplicities",
              lambda: "mp=%r expected %r" % (list(f.mp[1:-1]), [e[2] for e in exp]))
    ctx.check(ps.exact_eq(f.y[1:-1], [Fr(e[1]) for e in exp]), "coincidence_marks",
              lambda: "x=%r y=%r expected %r (mrts=%r max_tau=%r)"
              % (list(f.x[1:-1]), list(f.y[1:-1]), [e[1] for e in exp],
                 case["mrts"], case.get("max_tau")))
    # the per-spike indicator used for filtering, both argument orders
    impl = single_impl(ctx, case["compiled"])
    mtv = float(case["max_tau"] or 0.0)
    mv = float(m)
    ca = set(i for i, _ in pairs)
    cb = set(j for _, j in pairs)
    c12 = ctx.call("single_12", impl, st1.spikes, st2.spikes, st1.t_start, st1.t_end, mtv, mv)
    c21 = ctx.call("single_21", impl, st2.spikes, st1.spikes, st1.t_start, st1.t_end, mtv, mv)
    e12 = [1.0 if i in ca else 0.0 for i in range(len(a))]
    e21 = [1.0 if j in cb else 0.0 for j in range(len(b))]
    ctx.check(list(np.asarray(c12)) == e12, "single_indicator",
              lambda: "train1 indicator %r expected %r" % (list(np.asarray(c12)), e12))
    ctx.check(list(np.asarray(c21)) == e21, "single_indicator",
              lambda: "train2 indicator %r expected %r" % (list(np.asarray(c21)), e21))
    ctx.check(sum(np.asarray(c12)) == sum(np.asarray(c21)), "mutual_counts",
              lambda: "train1 has %r coincident spikes, train2 %r" % (sum(c12), sum(c21)))
    # ... and through the public filter: with two trains and threshold 0 it keeps
    # exactly the coincident spikes
    kept = ctx.call("filter_by_spike_sync", pyspike.filter_by_spike_sync, [st1, st2], 0.0, **kw)
    ka = [float(t) for t, v in zip(case["trains"][0], e12) if v]
    kb = [float(t) for t, v in zip(case["trains"][1], e21) if v]
    ctx.check([float(v) for v in kept[0].spikes] == ka and
              [float(v) for v in kept[1].spikes] == kb, "filter_indicator",
              lambda: "filter_by_spike_sync(threshold=0, %r) keeps %r / %r, the profile marks "
                      "%r / %r" % (kw, list(kept[0].spikes), list(kept[1].spikes), ka, kb))
    # scalar
    sy = sum(e[1] for e in exp)
    smp = sum(e[2] for e in exp)
    sref = Fr(sy, smp) if smp else Fr(1)
    s = ctx.call("spike_sync", pyspike.spike_sync, st1, st2, **kw)
    ctx.check(ps.close(s, sref, 1e-12), "sync_value",
              lambda: "spike_sync=%r expected %r" % (float(s), float(sref)))


def siblings(case):
    """run right after the case in the same process (runner._run_one)"""
    sibs = [ps.sibling_wider_edges(case)]
    extra = ps.sibling_same_count_and_sum(case)
    if extra is not None:
        sibs.append(extra)
    return sibs
