"""C20 - merging and histogramming conserve every spike."""
import collections
import math
from fractions import Fraction as Fr

import numpy as np
from hypothesis import strategies as st

from .. import gen, ps
from ..runner import HypPhase, EnumPhase

PID = "C20"
RULE = ("three kinds of cases. (merge) list of 1..6 valid trains on a dyadic grid with "
        "times shared between trains and empty trains. (psth) the same lists with a bin "
        "size = recording / k (k = 1..16, bins on the grid so that spikes fall exactly on "
        "bin edges) or an arbitrary dyadic bin size <= recording. (poisson) rate and "
        "interval (pair or scalar) with rate * length <= 200, numpy's global RNG seeded "
        "from a generated integer and restored afterwards. Non-trivial = a time present in "
        ">= 2 trains (merge), a spike exactly on an interior bin edge or on t_end (psth), "
        "any poisson case with >= 2 spikes. Distinct = distinct case JSON.")
ASSUMPTIONS = [
    "merge oracle = multiset union (collections.Counter) of the input times, sorted",
    "psth oracle = counts recomputed from the RETURNED bin edges (half-open bins, last bin "
    "closed); the number of bins is T/bin when that is an integer and floor or ceil of it "
    "otherwise (the statement only fixes 'equally wide bins spanning the recording')",
    "poisson: only validity (strictly increasing, inside [T0, T1), edges as requested)",
]


@st.composite
def _lists(draw, tier, kind):
    g = draw(gen.int_train_lists(1, 6, related=draw(st.booleans()),
                                 max_spikes=8 if tier == "quick" else 20))
    c = gen.to_times(g)
    c["kind"] = kind
    if kind == "merge" and draw(st.booleans()):
        # trains recorded on different intervals: the merged train lives on the first one's
        q, k0, n = g["q"], g["k0"], g["n"]
        c["edges"] = []
        for tr in g["trains"]:
            lo = draw(st.integers(0, min(min(tr), n - 1) if tr else n - 1))
            hi = draw(st.integers(max(max(tr) if tr else 0, lo + 1), n))
            c["edges"].append([(k0 + lo) / q, (k0 + hi) / q])
    if kind == "psth":
        n, q = g["n"], g["q"]
        u = (1 << 14) if g.get("fine") else 1      # bins stay on the coarse grid
        n, q = n // u, q // u
        if draw(st.sampled_from([True, True, False])):
            divs = [k for k in range(1, 17) if n % k == 0] or [1]
            k = draw(st.sampled_from(divs))
            c["bin"] = (n // k) / q
        else:
            c["bin"] = draw(st.integers(1, 4 * n)) / (4.0 * q)
    return c


@st.composite
def _poisson(draw, tier):
    scalar = draw(st.booleans())
    t0 = 0.0 if scalar else draw(st.integers(-40, 40)) / 4.0
    ln = draw(st.sampled_from([1.0, 0.5, 10.0, 3.25, 100.0]))
    mean = draw(st.sampled_from([0.2, 1.0, 5.0, 20.0, 100.0, 200.0]))
    return dict(kind="poisson", scalar=scalar, t0=t0, t1=t0 + ln, rate=mean / ln,
                seed=draw(st.integers(0, 2 ** 31 - 1)))


def _enum(tier, shard, nshards):
    """psth: two trains on {0..5}, every pair, bin sizes 1, 2.5, 5, 0.5"""
    G = 5
    n = 1 << (G + 1)
    for m1 in range(shard, n, nshards):
        a = [float(k) for k in gen.subset_of_mask(m1, G)]
        for m2 in range(n):
            b = [float(k) for k in gen.subset_of_mask(m2, G)]
            for bs in (1.0, 2.5, 5.0, 0.5):
                yield dict(kind="psth", t0=0.0, t1=float(G), trains=[a, b], bin=bs)
            yield dict(kind="merge", t0=0.0, t1=float(G), trains=[a, b, a])


PHASES = [
    HypPhase("merge", lambda tier: _lists(tier, "merge"), dict(quick=1500, thorough=15000)),
    HypPhase("psth", lambda tier: _lists(tier, "psth"), dict(quick=2500, thorough=25000)),
    HypPhase("poisson", _poisson, dict(quick=400, thorough=4000)),
    EnumPhase("grid5", _enum,
              lambda tier: "all ordered pairs of subsets of {0..5} on [0,5]: psth with bin "
                           "in {1, 2.5, 5, 0.5} and merge of [a, b, a]",
              tiers=("quick", "thorough")),
]


def _on_edge(case):
    t0, t1, b = case["t0"], case["t1"], case["bin"]
    T = Fr(t1) - Fr(t0)
    k = T / Fr(b)
    if k.denominator != 1:
        return False
    w = Fr(b)
    for tr in case["trains"]:
        for s in tr:
            d = (Fr(s) - Fr(t0)) / w
            if d.denominator == 1 and d > 0:
                return True
    return False


def classify(case):
    labels = ["kind:" + case["kind"]]
    if case["kind"] == "poisson":
        labels.append("scalar_interval" if case["scalar"] else "pair_interval")
        return labels
    trs = case["trains"]
    cnt = collections.Counter(s for tr in trs for s in tr)
    if any(v > 1 for v in cnt.values()):
        labels.append("time_in_several_trains")
    if any(not tr for tr in trs):
        labels.append("empty_train")
    if case["kind"] == "psth":
        if _on_edge(case):
            labels.append("spike_on_bin_edge")
        T = Fr(case["t1"]) - Fr(case["t0"])
        labels.append("bin_divides_recording" if (T / Fr(case["bin"])).denominator == 1
                      else "bin_does_not_divide")
    return labels


def nontrivial(case):
    l = set(classify(case))
    if case["kind"] == "merge":
        return "time_in_several_trains" in l
    if case["kind"] == "psth":
        return "spike_on_bin_edge" in l
    return case["rate"] * (case["t1"] - case["t0"]) >= 5


def run_case(case, ctx):
    import pyspike
    k = case["kind"]
    if k == "poisson":
        state = np.random.get_state()
        try:
            np.random.seed(case["seed"])
            iv = case["t1"] if case["scalar"] else (case["t0"], case["t1"])
            s = ctx.call("generate_poisson_spikes", pyspike.generate_poisson_spikes,
                         case["rate"], iv)
        finally:
            np.random.set_state(state)
        sp = np.asarray(s.spikes, dtype=float)
        ctx.check(bool(np.all(np.diff(sp) > 0)), "poisson_not_sorted",
                  lambda: "%r" % sp.tolist()[:10])
        ctx.check(bool(np.all(sp >= case["t0"]) and np.all(sp < case["t1"])),
                  "poisson_outside_interval",
                  lambda: "[%r, %r): min %r max %r" % (case["t0"], case["t1"],
                                                       sp.min() if sp.size else None,
                                                       sp.max() if sp.size else None))
        ctx.check(s.t_start == case["t0"] and s.t_end == case["t1"], "poisson_edges",
                  lambda: "[%r,%r] expected [%r,%r]" % (s.t_start, s.t_end,
                                                        case["t0"], case["t1"]))
        return
    sts = ps.trains(case)
    if case.get("edges"):
        for s_, e in zip(sts, case["edges"]):
            s_.t_start, s_.t_end = e
    before = [s.spikes.tobytes() for s in sts]
    if k == "merge":
        m = ctx.call("merge_spike_trains", pyspike.merge_spike_trains, sts)
        exp = sorted(s for tr in case["trains"] for s in tr)
        # the very first thing done with the merged train may be to copy it
        mc = ctx.call("copy_of_merged", m.copy)
        gotc = [float(v) for v in mc.spikes]
        ctx.check(gotc == exp and mc.t_start == m.t_start and mc.t_end == m.t_end,
                  "copy_of_merged_train",
                  lambda: "copy() of the freshly merged train holds %r, expected %r"
                  % (gotc, exp))
        got = [float(v) for v in m.spikes]
        ctx.check(collections.Counter(got) == collections.Counter(exp), "merge_multiset",
                  lambda: "trains %r merged to %r" % (case["trains"], got))
        ctx.check(got == sorted(got), "merge_not_sorted", lambda: "%r" % got)
        e0, e1 = case["edges"][0] if case.get("edges") else (case["t0"], case["t1"])
        ctx.check(m.t_start == e0 and m.t_end == e1, "merge_edges",
                  lambda: "merged train on [%r,%r], first train on [%r,%r]"
                  % (m.t_start, m.t_end, e0, e1))
    else:
        f = ctx.call("psth", pyspike.psth, sts, case["bin"])
        x = np.asarray(f.x, dtype=float)
        y = np.asarray(f.y, dtype=float)
        t0, t1 = case["t0"], case["t1"]
        ctx.check(len(x) == len(y) + 1 and len(y) >= 1, "psth_lengths",
                  lambda: "len(x)=%d len(y)=%d" % (len(x), len(y)))
        ctx.check(float(x[0]) == t0 and float(x[-1]) == t1, "psth_span",
                  lambda: "x runs %r..%r, recording %r..%r" % (x[0], x[-1], t0, t1))
        w = np.diff(x)
        # equal up to the rounding of the edges themselves (one ulp of the largest |edge|
        # per edge - matters for recordings far away from zero)
        wtol = 1e-12 * max(1.0, abs(t1 - t0)) + 8 * float(np.spacing(np.max(np.abs(x))))
        ctx.check(bool(np.all(w > 0) and np.all(np.abs(w - w[0]) <= wtol)),
                  "psth_bins_not_equal", lambda: "widths %r" % w.tolist())
        ratio = (Fr(t1) - Fr(t0)) / Fr(case["bin"])
        nb = len(y)
        if ratio.denominator == 1:
            ctx.check(nb == ratio, "psth_bin_count",
                      lambda: "%d bins for recording/bin = %s" % (nb, ratio))
        else:
            ctx.check(nb in (math.floor(ratio), math.ceil(ratio)), "psth_bin_count",
                      lambda: "%d bins for recording/bin = %s" % (nb, float(ratio)))
        allsp = [s for tr in case["trains"] for s in tr]
        exp = []
        for b in range(nb):
            lo, hi = float(x[b]), float(x[b + 1])
            if b == nb - 1:
                exp.append(sum(1 for s in allsp if lo <= s <= hi))
            else:
                exp.append(sum(1 for s in allsp if lo <= s < hi))
        ctx.check([float(v) for v in y] == [float(v) for v in exp], "psth_counts",
                  lambda: "trains %r bin %r: edges %r counts %r expected %r"
                  % (case["trains"], case["bin"], x.tolist(), y.tolist(), exp))
        inside = sum(1 for s in allsp if t0 <= s <= t1)
        ctx.check(float(np.sum(y)) == float(inside), "psth_total",
                  lambda: "sum of bins %r, %d spikes inside the recording"
                  % (float(np.sum(y)), inside))
    ctx.check([s.spikes.tobytes() for s in sts] == before, "input_modified",
              "%s changed its input" % k)
