"""C19 - spike trains survive text round-trips and imports unchanged."""
import math
import os
import tempfile

import numpy as np
from hypothesis import strategies as st

from .. import ps
from ..runner import HypPhase, EnumPhase

PID = "C19"
RULE = ("three kinds of cases. (txt) list of 0..6 trains (dyadic and arbitrary doubles: "
        "negative, tiny, huge, 1-ulp neighbours; empty trains at any position; optionally "
        "shuffled spike times) x separator in {' ', ',', ';', tab, ', ', ' ; ', '|'} x "
        "precision 0..20 x comment prefix in {#, %, //, !} x inserted comment lines x "
        "ignore_empty_lines x edges pair or scalar. (string) spike_train_from_string with "
        "the same separators. (series) 0/1 matrices r x c with r, c >= 1, start time, bin "
        "width, separators. Non-trivial = an empty train in the middle, or a non-default "
        "separator with precision >= 17, or a one-row / one-column matrix, or a scalar "
        "edge. Distinct = distinct case JSON.")
ASSUMPTIONS = [
    "files are written to a per-case tempfile.TemporaryDirectory()",
    "round-trip tolerance |loaded - x| <= 10^-precision * |x| (one unit of the last "
    "printed digit), bit-identical for precision >= 17; time-series times exact on dyadic "
    "start/bin, 1e-12 relative otherwise",
]

SEPS = [" ", ",", ";", "\t", ", ", " ; ", "|"]
COMMENTS = ["#", "%", "//", "!"]


def _value():
    dy = st.integers(-4096, 4096).map(lambda k: k / 64.0)
    fl = st.floats(-1e6, 1e6, allow_nan=False, allow_infinity=False)
    tiny = st.floats(-1e-6, 1e-6, allow_nan=False).filter(lambda v: v == 0 or abs(v) > 1e-300)
    huge = st.floats(1e6, 1e15, allow_nan=False)
    return st.one_of(dy, fl, dy, tiny, huge, fl.map(lambda v: math.nextafter(v, math.inf)))


@st.composite
def _txt(draw, tier):
    nt = draw(st.integers(0, 6))
    trains = []
    for _ in range(nt):
        if draw(st.sampled_from([False, False, False, True])):
            trains.append([])
        elif draw(st.integers(0, 24)) == 0:
            # a long train (more than a thousand spikes)
            k = draw(st.sampled_from([1025, 1500, 2049, 3000]))
            a = draw(st.integers(-64, 64)) / 8.0
            trains.append([a + j / 16.0 for j in range(k)])
        else:
            vals = draw(st.lists(_value(), min_size=1, max_size=8 if tier == "quick" else 20,
                                 unique=True))
            if not draw(st.booleans()):
                vals = sorted(vals)
            trains.append(vals)
    comments = draw(st.lists(st.tuples(st.integers(0, max(0, nt)),
                                       st.sampled_from(["", " a comment", "1.0 2.0", "\t"])),
                             max_size=3))
    edges = draw(st.sampled_from(["pair", "pair", "scalar"]))
    return dict(kind="txt", trains=trains, sep=draw(st.sampled_from(SEPS)),
                precision=draw(st.sampled_from([17, 8, 0, 3, 20, 16, 1, 12, 18, 5])),
                default_precision=draw(st.sampled_from([False, False, True])),
                comment=draw(st.sampled_from(COMMENTS)), comment_lines=[list(c) for c in comments],
                ignore_empty=draw(st.booleans()), edges=edges, preexisting=draw(st.booleans()),
                scalar_type=draw(st.sampled_from(["float", "float", "int", "np.float64",
                                                  "np.int64", "np.float32", "0d"])),
                e0=draw(st.integers(-100, 100)) / 4.0, e1=draw(st.integers(101, 300)) / 4.0)


@st.composite
def _string(draw, tier):
    vals = draw(st.lists(_value(), max_size=10, unique=True))
    return dict(kind="string", values=vals, sep=draw(st.sampled_from(SEPS)),
                sorted_flag=draw(st.booleans()),
                edges=draw(st.sampled_from(["pair", "scalar"])),
                scalar_type=draw(st.sampled_from(["float", "float", "int", "np.float64",
                                                  "np.int64", "np.float32", "0d"])),
                e0=draw(st.integers(-100, 100)) / 4.0, e1=draw(st.integers(101, 300)) / 4.0)


@st.composite
def _series(draw, tier):
    r = draw(st.sampled_from([1, 2, 3, 1, 5]))
    c = draw(st.sampled_from([1, 2, 4, 1, 9, 17]))
    rows = [draw(st.lists(st.sampled_from([0, 1, 0, 1, 2]), min_size=c, max_size=c))
            for _ in range(r)]
    dy = draw(st.booleans())
    if dy:
        start = draw(st.integers(-64, 64)) / 8.0
        tbin = draw(st.integers(1, 64)) / 16.0
    else:
        start = draw(st.floats(-100, 100, allow_nan=False))
        tbin = draw(st.floats(1e-3, 10, allow_nan=False))
    return dict(kind="series", rows=rows, start=start, bin=tbin, dyadic=dy,
                sep=draw(st.sampled_from([None, None, ",", ";", "\t"])),
                comment=draw(st.sampled_from(COMMENTS)),
                comment_first=draw(st.booleans()))


def _enum(tier, shard, nshards):
    idx = 0
    for r in (1, 2, 3):
        for c in (1, 2, 3):
            for m in range(1 << (r * c)):
                idx += 1
                if idx % nshards != shard:
                    continue
                rows = [[(m >> (i * c + j)) & 1 for j in range(c)] for i in range(r)]
                yield dict(kind="series", rows=rows, start=0.5, bin=0.25, dyadic=True,
                           sep=None, comment="#", comment_first=False)


PHASES = [
    HypPhase("txt", _txt, dict(quick=2500, thorough=15000)),
    HypPhase("string", _string, dict(quick=500, thorough=5000)),
    HypPhase("series", _series, dict(quick=800, thorough=8000)),
    EnumPhase("matrices", _enum,
              lambda tier: "all 0/1 matrices of shape r x c, r,c in 1..3, start 0.5, bin 0.25",
              tiers=("quick", "thorough")),
]


def classify(case):
    k = case["kind"]
    labels = ["kind:" + k]
    if k == "txt":
        tr = case["trains"]
        if any(not t for t in tr[1:-1]):
            labels.append("empty_train_in_the_middle")
        if any(not t for t in tr):
            labels.append("has_empty_train")
        if case["sep"] != " ":
            labels.append("non_default_separator")
        p = 8 if case["default_precision"] else case["precision"]
        labels.append("precision>=17" if p >= 17 else "precision<17")
        if case["comment_lines"]:
            labels.append("comment_lines")
        if case["edges"] == "scalar":
            labels.append("scalar_edge")
        if any(t != sorted(t) for t in tr):
            labels.append("unsorted_line")
        if any(len(t) > 1024 for t in tr):
            labels.append("train_longer_than_1024")
    elif k == "series":
        r, c = len(case["rows"]), len(case["rows"][0])
        if r == 1:
            labels.append("one_row")
        if c == 1:
            labels.append("one_column")
    return labels


def nontrivial(case):
    l = set(classify(case))
    if case["kind"] == "txt":
        return bool(l & {"empty_train_in_the_middle", "scalar_edge"}) or \
            ("non_default_separator" in l and "precision>=17" in l)
    if case["kind"] == "series":
        return bool(l & {"one_row", "one_column"})
    return case["edges"] == "scalar" or case["sep"] != " "


def _scalar_edge(case):
    """the end of the recording as the caller may hold it: a Python number, a numpy
    scalar (e.g. the result of spikes.max() or np.ceil) or a 0-d array - the value is
    always exactly e1 (a multiple of 1/4)"""
    v = case["e1"]
    t = case.get("scalar_type", "float")
    whole = float(v).is_integer()
    if t == "int" and whole:
        return int(v)
    if t == "np.int64" and whole:
        return np.int64(v)
    if t == "np.float64":
        return np.float64(v)
    if t == "np.float32":
        return np.float32(v)
    if t == "0d":
        return np.array(v)
    return v


def run_case(case, ctx):
    import pyspike
    k = case["kind"]
    if k == "string":
        vals = case["values"]
        s = case["sep"].join(repr(float(v)) for v in vals)
        edges = _scalar_edge(case) if case["edges"] == "scalar" else [case["e0"], case["e1"]]
        st_ = ctx.call("spike_train_from_string", pyspike.spike_train_from_string, s, edges,
                       sep=case["sep"], is_sorted=case["sorted_flag"])
        exp = list(vals) if case["sorted_flag"] else sorted(vals)
        ctx.check([float(v) for v in st_.spikes] == exp, "string_times",
                  lambda: "string %r sep=%r -> %r expected %r" % (s, case["sep"],
                                                                  list(st_.spikes), exp))
        e0 = 0.0 if case["edges"] == "scalar" else case["e0"]
        ctx.check(st_.t_start == e0 and st_.t_end == case["e1"], "string_edges",
                  lambda: "edges %r -> [%r,%r]" % (edges, st_.t_start, st_.t_end))
        return
    with tempfile.TemporaryDirectory() as d:
        path = os.path.join(d, "trains.txt")
        if k == "txt":
            _run_txt(case, ctx, pyspike, path)
        else:
            _run_series(case, ctx, pyspike, path)


def _run_txt(case, ctx, pyspike, path):
    trains = case["trains"]
    sts = [pyspike.SpikeTrain(np.array(t, dtype=float), [case["e0"], case["e1"]])
           for t in trains]
    before = [s.spikes.tobytes() for s in sts]
    if case.get("preexisting"):
        # the file already exists and holds something else: saving replaces it
        pyspike.save_spike_trains_to_txt([pyspike.SpikeTrain([1.0, 2.0, 3.0], [0, 4])] * 3, path)
    if case["default_precision"]:
        p = 8
        ctx.call("save", pyspike.save_spike_trains_to_txt, sts, path, separator=case["sep"])
    else:
        p = case["precision"]
        ctx.call("save", pyspike.save_spike_trains_to_txt, sts, path, separator=case["sep"],
                 precision=p)
    ctx.check([s.spikes.tobytes() for s in sts] == before, "save_modified_input", "")
    with open(path) as f:
        lines = f.read().split("\n")
    ctx.check(lines[-1] == "" and len(lines) - 1 == len(trains), "file_line_count",
              lambda: "%d trains -> %d lines" % (len(trains), len(lines) - 1))
    lines = lines[:-1]
    # insert comment lines
    for pos, text in sorted(case["comment_lines"], reverse=True):
        lines.insert(min(pos, len(lines)), case["comment"] + text)
    with open(path, "w") as f:
        f.write("".join(l + "\n" for l in lines))
    edges = _scalar_edge(case) if case["edges"] == "scalar" else (case["e0"], case["e1"])
    loaded = ctx.call("load", pyspike.load_spike_trains_from_txt, path, edges,
                      separator=case["sep"], comment=case["comment"],
                      ignore_empty_lines=case["ignore_empty"])
    exp = [sorted(t) for t in trains if t or not case["ignore_empty"]]
    ctx.check(len(loaded) == len(exp), "train_count",
              lambda: "saved %r (ignore_empty_lines=%r, %d comment lines) -> %d trains loaded, "
                      "expected %d" % ([len(t) for t in trains], case["ignore_empty"],
                                       len(case["comment_lines"]), len(loaded), len(exp)))
    # the same trains in a file somebody typed by hand (shortest decimal form, whole
    # numbers without a decimal point: "7"), same comment lines: the same trains come back
    hand = [case["sep"].join(str(int(v)) if float(v).is_integer() else repr(float(v))
                             for v in t) for t in trains]
    for pos, text in sorted(case["comment_lines"], reverse=True):
        hand.insert(min(pos, len(hand)), case["comment"] + text)
    hpath = path + ".hand"
    with open(hpath, "w") as f:
        f.write("".join(l + "\n" for l in hand))
    loaded_h = ctx.call("load_hand_written", pyspike.load_spike_trains_from_txt, hpath, edges,
                        separator=case["sep"], comment=case["comment"],
                        ignore_empty_lines=case["ignore_empty"])
    ctx.check([[float(v) for v in l.spikes] for l in loaded_h] == exp, "hand_written_file",
              lambda: "lines %r (ignore_empty_lines=%r) loaded as %r, expected %r"
              % (hand, case["ignore_empty"], [[float(v) for v in l.spikes] for l in loaded_h],
                 exp))
    e0 = 0.0 if case["edges"] == "scalar" else case["e0"]
    for n, (l, e) in enumerate(zip(loaded, exp)):
        got = [float(v) for v in l.spikes]
        ctx.check(len(got) == len(e), "spike_count",
                  lambda: "train %d: %r loaded as %r (sep=%r precision=%d)"
                  % (n, e, got, case["sep"], p))
        if p >= 17:
            ctx.check(got == e, "not_bit_identical",
                      lambda: "train %d precision %d sep %r: %r loaded as %r"
                      % (n, p, case["sep"], e, got))
        else:
            # each value rounded to p digits; sorting happens after rounding
            ok = all(abs(a - b) <= 10.0 ** (-p) * abs(b) for a, b in zip(got, e))
            ctx.check(ok, "beyond_requested_precision",
                      lambda: "train %d precision %d: %r loaded as %r" % (n, p, e, got))
        ctx.check(l.t_start == e0 and l.t_end == case["e1"], "edges",
                  lambda: "edges %r -> [%r, %r]" % (edges, l.t_start, l.t_end))
        ctx.check(got == sorted(got), "not_sorted", lambda: "train %d: %r" % (n, got))


def _run_series(case, ctx, pyspike, path):
    rows = case["rows"]
    sep = case["sep"]
    with open(path, "w") as f:
        if case["comment_first"]:
            f.write(case["comment"] + " header\n")
        for r in rows:
            f.write((sep if sep is not None else " ").join(str(v) for v in r) + "\n")
    start, tbin = case["start"], case["bin"]
    kw = {"comment": case["comment"]}
    if sep is not None:
        kw["separator"] = sep
    sts = ctx.call("import_time_series", pyspike.import_spike_trains_from_time_series,
                   path, start, tbin, **kw)
    ctx.check(len(sts) == len(rows), "train_count",
              lambda: "%d x %d matrix -> %d trains" % (len(rows), len(rows[0]), len(sts)))
    c = len(rows[0])
    tol = 0.0 if case["dyadic"] else 1e-12
    for n, (s, r) in enumerate(zip(sts, rows)):
        exp = [start + (k + 1) * tbin for k, v in enumerate(r) if v != 0]
        got = [float(v) for v in s.spikes]
        ok = len(got) == len(exp) and all(abs(a - b) <= tol * max(1.0, abs(b))
                                          for a, b in zip(got, exp))
        ctx.check(ok, "series_times", lambda: "row %d %r start=%r bin=%r -> %r expected %r"
                  % (n, r, start, tbin, got, exp))
        ee = start + c * tbin
        ctx.check(s.t_start == start and abs(s.t_end - ee) <= tol * max(1.0, abs(ee)),
                  "series_edges", lambda: "edges [%r,%r] expected [%r,%r]"
                  % (s.t_start, s.t_end, start, ee))
