"""C17 - the SPIKE-Sync filter keeps exactly the spikes above threshold."""
from fractions import Fraction as Fr

import numpy as np
from hypothesis import strategies as st

from .. import gen, oracle as O, ps
from ..runner import HypPhase, EnumPhase

PID = "C17"
RULE = ("cases = (list of 2..6 valid trains on a dyadic grid with related (jittered) and "
        "shared spikes, two thresholds thr1 <= thr2 drawn from {k/(N-1)} u {j/64} u {0,1}, "
        "MRTS, max_tau, backend). Non-trivial = N >= 3 and some spike's coincidence "
        "fraction equals one of the thresholds exactly. Distinct = distinct case JSON.")
ASSUMPTIONS = [
    "compiled=true cases execute the .pyx source through the pyxshim transliteration",
    "per-spike partner counts come from the all-pairs window oracle (exact rationals)",
    "thresholds are k/(N-1) with (k/(N-1))*(N-1) == k in binary64 (N <= 7) or j/64, so "
    "the exact-rational comparison count/(N-1) > thr and the float comparison agree",
]


@st.composite
def _case(draw, tier):
    nmax = 5 if tier == "quick" else 6
    sz = dict(max_spikes=6 if tier == "quick" else 14)
    g = draw(gen.int_train_lists(2, nmax, related=draw(st.booleans()), **sz))
    c = gen.to_times(g)
    N = len(c["trains"])
    c["mrts"] = draw(gen.mrts_for(g, allow_auto=True))
    c["max_tau"] = draw(gen.maxtau_for(g))

    def thr():
        kind = draw(st.sampled_from(["k", "k", "j", "edge"]))
        if kind == "k":
            k = draw(st.integers(0, N - 1))
            return [k / (N - 1), k]
        if kind == "j":
            return [draw(st.integers(0, 64)) / 64.0, None]
        return [draw(st.sampled_from([0.0, 1.0])), None]
    t = sorted([thr(), thr()], key=lambda x: x[0])
    c["thr1"], c["thr2"] = t
    c["compiled"] = draw(st.booleans())
    c["alias_equal"] = draw(st.booleans())
    return c


def _enum(tier, shard, nshards):
    """three trains on {0..4}: all 32^3 triples x thresholds {0, 1/2, 1} x settings"""
    G = 4
    n = 1 << (G + 1)
    idx = 0
    for m1 in range(n):
        for m2 in range(n):
            for m3 in range(n):
                idx += 1
                if idx % nshards != shard:
                    continue
                trs = [[float(k) for k in gen.subset_of_mask(m, G)] for m in (m1, m2, m3)]
                for (mrts, mt) in ((0.0, None), (2.0, None), (0.0, 1.0)):
                    yield dict(t0=0.0, t1=float(G), trains=trs, mrts=mrts, max_tau=mt,
                               thr1=[0.0, 0], thr2=[0.5, 1], compiled=bool(idx & 1))


@st.composite
def _decimal(draw, tier):
    """Trains on a DECIMAL grid that does not start at zero (t0 + k*0.1 evaluated in
    doubles): time differences and half-ISIs tie only up to the last bit, and nothing is
    exactly representable - the filter's kernel and the profile's kernel must still take
    the same decisions, because the statement defines the filter through the profile."""
    t0 = draw(st.sampled_from([0.1, 0.3, 0.7, 1.1, -0.9]))
    step = draw(st.sampled_from([0.1, 0.3, 0.05]))
    n = draw(st.integers(6, 40))
    N = draw(st.integers(2, 4))
    trains = []
    for _ in range(N):
        ks = sorted(draw(st.lists(st.integers(0, n), max_size=8, unique=True)))
        trains.append([t0 + k * step for k in ks])
    k = draw(st.integers(0, N - 1))
    return dict(kind="decimal", t0=t0, t1=t0 + n * step, trains=trains, thr=[k / (N - 1), k],
                mrts=draw(st.sampled_from([None, 0.0, 4 * step])), max_tau=None,
                compiled=draw(st.booleans()))


PHASES = [
    HypPhase("dyadic", _case, dict(quick=4500, thorough=40000)),
    HypPhase("decimal", _decimal, dict(quick=1500, thorough=15000)),
    EnumPhase("grid4x3", _enum,
              lambda tier: "all ordered triples of subsets of {0..4} on [0,4] x "
                           "(MRTS,max_tau) in {(0,None),(2,None),(0,1)} with thresholds "
                           "0 and 1/2"),
]


def _counts(case):
    trs, T0, T1 = ps.fr_trains(case)
    m = ps.mrts_exact(case)
    mt = Fr(case["max_tau"]) if case.get("max_tau") else None
    N = len(trs)
    cnt = [[0] * len(tr) for tr in trs]
    for x in range(N):
        for y in range(x + 1, N):
            pairs, _ = O.coincidences(trs[x], trs[y], T0, T1, m, mt)
            for i, j in pairs:
                cnt[x][i] += 1
                cnt[y][j] += 1
    return trs, cnt


def _keep(count, N, thr):
    v, k = thr
    if k is not None:
        return count > k
    return Fr(count, N - 1) > Fr(v)


def _hits_exactly(case):
    trs, cnt = _counts(case)
    N = len(trs)
    for thr in (case["thr1"], case["thr2"]):
        for c in cnt:
            for v in c:
                if Fr(v, N - 1) == Fr(thr[0]):
                    return True
    return False


def classify(case):
    N = len(case["trains"])
    labels = ["N=%d" % N, "compiled" if case["compiled"] else "fallback"]
    if case.get("kind") == "decimal":
        return labels + ["decimal_grid"]
    if _hits_exactly(case):
        labels.append("fraction_equals_threshold")
    if case["mrts"]:
        labels.append("mrts_positive")
    if case.get("max_tau"):
        labels.append("max_tau_positive")
    labels += sorted(ps.train_kinds(case) & {"empty_train", "shared_spike", "identical_trains"})
    return labels


def nontrivial(case):
    if case.get("kind") == "decimal":
        return len(case["trains"]) >= 3 and sum(len(t) for t in case["trains"]) >= 6
    return len(case["trains"]) >= 3 and _hits_exactly(case)


def _run_decimal(case, ctx):
    """filter vs the library's own multivariate profile (the statement's definition of
    what is kept), on inputs where exact-rational reasoning about the doubles' ties
    would be no better than the code's"""
    import pyspike
    ctx.set_backend(case["compiled"])
    sts = ps.trains(case)
    N = len(sts)
    v, k = case["thr"]
    if v * (N - 1) != k:
        ctx.notes["threshold_not_exact_skipped"] += 1
        return
    kw = {} if case["mrts"] is None else {"MRTS": case["mrts"]}
    kept, removed = ctx.call("filter", pyspike.filter_by_spike_sync, sts, v,
                             return_removed_spikes=True, **kw)
    prof = ctx.call("spike_sync_profile_multi", pyspike.spike_sync_profile, sts, **kw)
    owners = {}
    for n, tr in enumerate(case["trains"]):
        for t in tr:
            owners.setdefault(t, []).append(n)
    px = [float(x) for x in prof.x[1:-1]]
    py = [float(y) for y in prof.y[1:-1]]
    pm = [float(m) for m in prof.mp[1:-1]]
    for n, tr in enumerate(case["trains"]):
        merged = sorted(list(kept[n].spikes) + list(removed[n].spikes))
        ctx.check(merged == list(tr), "partition",
                  lambda: "train %d: kept+removed=%r input=%r" % (n, merged, tr))
        for t in tr:
            if len(owners[t]) != 1 or px.count(t) != 1:
                continue
            j = px.index(t)
            want = py[j] > k
            ctx.check(pm[j] == N - 1, "profile_multiplicity",
                      lambda: "profile multiplicity %r at %r, N-1=%d" % (pm[j], t, N - 1))
            ctx.check((t in list(kept[n].spikes)) == want, "kept_vs_profile_value",
                      lambda: "train %d spike %r: the multivariate profile shows %r of %d, "
                              "threshold %r, but the filter %s it (trains %r on [%r,%r] %r)"
                      % (n, t, py[j], N - 1, v, "keeps" if not want else "removes",
                         case["trains"], case["t0"], case["t1"], kw))


def run_case(case, ctx):
    import pyspike
    if case.get("kind") == "decimal":
        return _run_decimal(case, ctx)
    ctx.set_backend(case["compiled"])
    sts = ps.trains(case)
    N = len(sts)
    snap = [(s.spikes.tobytes(), s.t_start, s.t_end) for s in sts]
    trs, cnt = _counts(case)
    kw = ps.kw(case)
    for k in ("thr1", "thr2"):
        v, kk = case[k]
        if kk is not None and v * (N - 1) != kk:
            ctx.notes["threshold_not_exact_skipped"] += 1
            return
    results = {}
    for name in ("thr1", "thr2"):
        thr = case[name]
        out = ctx.call("filter", pyspike.filter_by_spike_sync, sts, thr[0],
                       return_removed_spikes=True, **kw)
        ctx.check(isinstance(out, list) and len(out) == 2 and len(out[0]) == N
                  and len(out[1]) == N, "result_shape", lambda: "got %r" % (out,))
        kept, removed = out
        off = ctx.call("filter_reconcile_off", pyspike.filter_by_spike_sync, sts, thr[0],
                       return_removed_spikes=True, Reconcile=False, **kw)
        ctx.check([[list(t.spikes) for t in part] for part in off] ==
                  [[list(t.spikes) for t in part] for part in out], "reconcile_off_differs",
                  lambda: "valid input: Reconcile=False gives %r, default %r"
                  % ([[list(t.spikes) for t in part] for part in off],
                     [[list(t.spikes) for t in part] for part in out]))
        only = ctx.call("filter_kept_only", pyspike.filter_by_spike_sync, sts, thr[0], **kw)
        ctx.check(len(only) == N and all(list(only[n].spikes) == list(kept[n].spikes)
                                         for n in range(N)), "kept_only_form_differs",
                  lambda: "return_removed_spikes changes the kept spikes")
        for n in range(N):
            exp_keep = [float(t) for t, c in zip(trs[n], cnt[n]) if _keep(c, N, thr)]
            exp_rem = [float(t) for t, c in zip(trs[n], cnt[n]) if not _keep(c, N, thr)]
            ctx.check(list(kept[n].spikes) == exp_keep, "kept_spikes",
                      lambda: "train %d thr=%r: kept %r expected %r (counts %r of N-1=%d)"
                      % (n, thr[0], list(kept[n].spikes), exp_keep, cnt[n], N - 1))
            ctx.check(list(removed[n].spikes) == exp_rem, "removed_spikes",
                      lambda: "train %d thr=%r: removed %r expected %r"
                      % (n, thr[0], list(removed[n].spikes), exp_rem))
            for o in (kept[n], removed[n]):
                ctx.check(o.t_start == case["t0"] and o.t_end == case["t1"], "edges",
                          lambda: "edges %r,%r" % (o.t_start, o.t_end))
            merged = sorted(list(kept[n].spikes) + list(removed[n].spikes))
            ctx.check(merged == list(case["trains"][n]), "partition",
                      lambda: "train %d: kept+removed=%r input=%r"
                      % (n, merged, case["trains"][n]))
        results[name] = kept
    for n in range(N):
        ctx.check(set(results["thr2"][n].spikes) <= set(results["thr1"][n].spikes),
                  "threshold_monotone",
                  lambda: "train %d keeps more at %r than at %r"
                  % (n, case["thr2"][0], case["thr1"][0]))
    for s, (b, t0, t1) in zip(sts, snap):
        ctx.check(s.spikes.tobytes() == b and s.t_start == t0 and s.t_end == t1,
                  "input_modified", "an input train was changed")
    # the multivariate profile shows (count, N-1) at singly-owned spike times
    prof = ctx.call("spike_sync_profile_multi", pyspike.spike_sync_profile, sts, **kw)
    own = {}
    for n, tr in enumerate(trs):
        for i, t in enumerate(tr):
            own.setdefault(t, []).append((n, i))
    px = [Fr(float(v)) for v in prof.x[1:-1]]
    for t, owners in own.items():
        if len(owners) != 1:
            continue
        n, i = owners[0]
        ks = [k for k, v in enumerate(px) if v == t]
        ctx.check(len(ks) == 1, "profile_entry_missing",
                  lambda: "time %r appears %d times in the multivariate profile"
                  % (float(t), len(ks)))
        k = ks[0] + 1
        ctx.check(prof.y[k] == cnt[n][i] and prof.mp[k] == N - 1, "profile_value",
                  lambda: "profile at %r shows (%r, %r), expected (%d, %d)"
                  % (float(t), prof.y[k], prof.mp[k], cnt[n][i], N - 1))


def siblings(case):
    """run right after the case in the same process (runner._run_one)"""
    sibs = [ps.sibling_wider_edges(case)]
    extra = ps.sibling_same_count_and_sum(case)
    if extra is not None:
        sibs.append(extra)
    return sibs
