"""Generators (DESIGN.md section 3).  Everything is built by construction on
dyadic grids so that ties (shared spikes, spikes on edges, |dt| == tau,
MRTS == ISI, interval ends on breakpoints) are frequent and exactly
representable.  All strategies return plain JSON-able dicts / lists of floats.
"""
import math

from hypothesis import strategies as st

QS = [1, 2, 8, 64]


# ---------------------------------------------------------------------------
# integer-grid building blocks
# ---------------------------------------------------------------------------
@st.composite
def grids(draw, max_len=None):
    """(q, k0, n): grid step 1/q, t_start = k0/q, t_end = (k0+n)/q"""
    q = draw(st.sampled_from(QS))
    k0 = draw(st.integers(-16 * q, 16 * q))
    if draw(st.integers(0, 11)) == 0:
        # a recording far away from time zero (|t_start| of the order of 10^6, still
        # exactly representable on the grid): code that works with absolute times
        k0 += draw(st.sampled_from([1, -1])) * (1 << 20) * q
    hi = 64 * q if max_len is None else min(64 * q, max_len)
    n = draw(st.one_of(st.integers(1, min(40, hi)),
                       st.integers(1, min(12, hi)),
                       st.integers(1, hi)))
    return q, k0, n


def _uniq_sorted(xs):
    return sorted(set(xs))


_SIZE_ORDER = [3, 5, 4, 8, 6, 2, 7, 12, 10, 16, 9, 20, 14, 24, 30, 11, 13, 18]


def _size(draw, cap, lo=0):
    """target size; the order of the choices matters because Hypothesis is
    biased towards (and shrinks towards) the first elements"""
    opts = [k for k in _SIZE_ORDER if lo <= k <= cap] or [min(max(lo, 0), cap)]
    return draw(st.sampled_from(opts))


@st.composite
def train_on_grid(draw, n, pool, earlier, max_spikes, related=False):
    """sorted distinct ints in [0, n]"""
    kinds = ["random", "pool", "random", "pool", "periodic", "burst", "random", "pool"]
    if earlier:
        kinds = ["jitter", "jitter", "jitter"] + kinds + ["copy"]
    kinds += ["one", "empty", "one_end", "one_start", "both_edges"]
    if n >= 40 and draw(st.integers(0, 19)) == 0:
        # a long train (more than 32 spikes), whatever the size class of the tier:
        # code paths that switch algorithm for long inputs are reached
        k = draw(st.integers(33, min(n + 1, 72)))
        style = draw(st.sampled_from(["spread", "early", "late"]))
        lo, hi = (0, n) if style == "spread" else \
            ((0, min(n, max(k - 1, n // 2))) if style == "early"
             else (max(0, min(n - k + 1, n // 2)), n))
        return _uniq_sorted(draw(st.lists(st.integers(lo, hi), min_size=k, max_size=k,
                                          unique=True)))
    if n >= 62 and draw(st.integers(0, 39)) == 0:
        # a train whose length sits on or next to a power of two (63..257 spikes; up to
        # 1025 in the thorough tier): blocked / chunked kernels, size-threshold fast
        # paths and preallocated buffers have their boundaries there
        tops = [63, 64, 65, 127, 128, 129, 255, 256, 257]
        if max_spikes > 8:
            tops += [511, 512, 513, 1023, 1024, 1025]
        tops = [k for k in tops if k <= n + 1]
        k = draw(st.sampled_from(tops))
        if draw(st.booleans()):
            a = draw(st.integers(0, n + 1 - k))
            return list(range(a, a + k))
        return _uniq_sorted(draw(st.lists(st.integers(0, n), min_size=k, max_size=k,
                                          unique=True)))
    if related and earlier and any(earlier):
        kinds = ["jitter"] * 6 + ["random", "pool", "copy"]
    kind = draw(st.sampled_from(kinds))
    cap = min(max_spikes, n + 1)
    if kind == "empty":
        tr = []
    elif kind == "one":
        tr = [draw(st.integers(0, n))]
    elif kind == "one_start":
        tr = [0]
    elif kind == "one_end":
        tr = [n]
    elif kind == "both_edges":
        tr = [0, n]
    elif kind == "copy":
        tr = list(draw(st.sampled_from(earlier)))
    elif kind == "jitter":
        # an earlier train with every spike moved by a few grid units (some
        # dropped): produces near-coincidences with leaders and followers
        src = draw(st.sampled_from(earlier))
        w = draw(st.sampled_from([1, 2, 3, 1]))
        tr = []
        for s_ in src:
            d = draw(st.integers(-w, w + 1))
            if d <= w and 0 <= s_ + d <= n:
                tr.append(s_ + d)
        tr = _uniq_sorted(tr)[:max(cap, 1)]
    elif kind == "pool":
        k = _size(draw, min(cap, len(pool)))
        tr = _uniq_sorted(draw(st.lists(st.sampled_from(pool), min_size=k, max_size=k,
                                        unique=True)))
    elif kind == "random":
        k = _size(draw, cap)
        tr = _uniq_sorted(draw(st.lists(st.integers(0, n), min_size=k, max_size=k,
                                        unique=True)))
    elif kind == "periodic":
        p = draw(st.integers(1, max(1, n // 3)))
        a = draw(st.integers(0, min(n, p)))
        tr = list(range(a, n + 1, p))[:cap]
    else:  # burst
        a = draw(st.integers(0, n))
        ln = _size(draw, cap, 1)
        tr = list(range(a, min(n, a + ln - 1) + 1))
    force = draw(st.sampled_from(["", "", "s", "e", "", "se"]))
    if kind not in ("empty", "copy"):
        if "s" in force:
            tr = _uniq_sorted(tr + [0])
        if "e" in force:
            tr = _uniq_sorted(tr + [n])
    return tr


@st.composite
def int_train_lists(draw, min_trains=2, max_trains=2, max_spikes=8, max_len=None,
                    related=False):
    g = draw(_int_train_lists_core(min_trains, max_trains, max_spikes, max_len, related))
    # how the caller builds the SpikeTrain objects (ps.trains): from sorted times, or from
    # times in another order with is_sorted=False (the constructor sorts them), possibly
    # taking a copy() before anything else has looked at the object
    g["ctor"] = draw(st.sampled_from([None] * 5 + ["unsorted", "unsorted_copy"]))
    # checks that judge twice (ps.reedit): after the first round the caller edits the
    # objects in place - one spike moved, all spikes shifted, the recording extended -
    # and asks again with the same objects
    g["reuse"] = draw(st.sampled_from([None] * 4 + ["elem", "shift", "edges"]))
    return g


@st.composite
def _int_train_lists_core(draw, min_trains=2, max_trains=2, max_spikes=8, max_len=None,
                          related=False):
    q, k0, n = draw(grids(max_len))
    psize = draw(st.sampled_from([4, 6, 2, 8, 0]))
    pool = _uniq_sorted([0, n] + draw(st.lists(st.integers(0, n), min_size=psize,
                                                max_size=psize)))
    nt = draw(st.integers(min_trains, max_trains))
    trains = []
    for _ in range(nt):
        trains.append(draw(train_on_grid(n, pool, trains, max_spikes, related)))
    shape = draw(st.integers(0, 29))
    if shape == 0 and n >= 8:
        # sparse trains at opposite ends of the recording: the only shape in which "a
        # missing neighbour counts as the recording length" decides a coincidence
        for k in range(len(trains)):
            lo, hi = ((0, n // 4) if k % 2 == 0 else (n - n // 4, n))
            trains[k] = _uniq_sorted(draw(st.lists(st.integers(lo, hi), min_size=1, max_size=2)))
        return dict(q=q, k0=k0, n=n, trains=trains, sparse_far=True)
    if shape in (2, 3, 4) and n >= 80 and nt >= 2:
        # a dense long train (33..130 spikes, regular with period 1, 2 or 4 grid units)
        # next to a sparse one (1-4 spikes): inside it, all before it, all after it,
        # at block-sized index distances (32, 64 dense spikes between two sparse ones), or
        # straddling it (one spike far away, the other with 32+ dense spikes still to come
        # and its own ISI longer than the rest of the recording) - fast paths for "many
        # spikes left to scan" / "other train exhausted" live here
        where = draw(st.sampled_from(["inside", "blockish", "before", "after", "any",
                                      "straddle_late", "straddle_early", "blockish", "blockish"]))
        pers = [p_ for p_ in (1, 2, 4) if 40 * p_ <= n]
        if where == "blockish" and len(pers) > 1:
            pers = pers[1:]
        per = 1 if where.startswith("straddle") else draw(st.sampled_from(pers))
        kmax = min(130, n // per)
        if where.startswith("straddle"):
            kmax = min(kmax, n // 2 + 20)
        k = draw(st.one_of(st.integers(40, kmax), st.sampled_from(
            [v for v in (40, 63, 64, 65, 66, 96, 97, 128, 129) if v <= kmax])))
        span = per * (k - 1)
        a = {"straddle_late": n - span, "straddle_early": 0}.get(where)
        if a is None:
            a = draw(st.integers(0, n - span))
        dense = [a + per * j for j in range(k)]
        if where == "blockish":
            i = draw(st.integers(0, 3))
            sparse = []
            while i < k and len(sparse) < 4:
                sparse.append(min(n, dense[i] + draw(st.sampled_from([1, 1, 0, per - 1]))))
                i += draw(st.sampled_from([32, 31, 33, 64, 63, 65]))
        elif where == "straddle_late" and dense[-33] >= n // 2 + 1:
            s1 = draw(st.integers(max(dense[0] - 2, n // 2 + 1), dense[-33]))
            sparse = [draw(st.integers(0, 2 * s1 - n - 1)), s1]
        elif where == "straddle_early" and dense[32] <= (n - 1) // 2:
            s0 = draw(st.integers(dense[32], min(dense[-1] + 2, (n - 1) // 2)))
            sparse = [s0, draw(st.integers(2 * s0 + 1, n))]
        else:
            lo, hi = {"inside": (dense[0], dense[-1]), "before": (0, max(0, dense[0] - 1)),
                      "after": (min(n, dense[-1] + 1), n)}.get(where, (0, n))
            sparse = draw(st.lists(st.integers(lo, hi), min_size=1, max_size=4))
        i = draw(st.integers(0, nt - 1))
        j = (i + 1 + draw(st.integers(0, nt - 2))) % nt
        trains[i], trains[j] = dense, _uniq_sorted(sparse)
    if shape == 1 and k0 <= 0 <= k0 + n:
        # a train whose only spike is at time 0.0 exactly
        trains[draw(st.integers(0, len(trains) - 1))] = [-k0]
    if draw(st.sampled_from([False] * 6 + [True])):
        # fine mode: the same structure on a 2^14 times finer grid, interior
        # spikes moved by a few fine units - almost (but not exactly) shared
        # spike times and spikes almost (but not exactly) on an edge
        F = 1 << 14
        fine = []
        for tr in trains:
            out = []
            for s_ in tr:
                d = draw(st.sampled_from([0, 0, 1, -1, 2, 0]))
                v = s_ * F + d
                if v < 0 or v > n * F:
                    v = s_ * F
                out.append(v)
            fine.append(out)
        return dict(q=q * F, k0=k0 * F, n=n * F, trains=fine, fine=True)
    return dict(q=q, k0=k0, n=n, trains=trains)


def to_times(g):
    """integer case -> floats (exact: q is a power of two)"""
    q, k0 = g["q"], g["k0"]
    c = dict(t0=(k0) / q, t1=(k0 + g["n"]) / q,
             trains=[[(k0 + j) / q for j in tr] for tr in g["trains"]])
    for key in ("ctor", "reuse"):
        if g.get(key):
            c[key] = g[key]
    return c


def sizes(tier):
    return dict(max_spikes=8 if tier == "quick" else 30)


# ---------------------------------------------------------------------------
# settings drawn *from the case* so that ties are hit
# ---------------------------------------------------------------------------
@st.composite
def mrts_for(draw, g, allow_none=True, allow_auto=False):
    """MRTS value in time units (float, dyadic), None (= keyword omitted) or
    the string 'auto'"""
    q, n = g["q"], g["n"]
    opts = ["zero", "grid", "isi", "double_isi", "big", "quarter"]
    if allow_none:
        opts.append("none")
    if allow_auto:
        opts += ["auto", "auto"]
    kind = draw(st.sampled_from(opts))
    if kind == "auto":
        return "auto"
    isis = []
    for tr in g["trains"]:
        isis += [b - a for a, b in zip(tr, tr[1:])]
        if tr:
            isis += [tr[0], n - tr[-1]]
    isis = [i for i in isis if i > 0] or [n]
    if kind == "none":
        return None
    if kind == "zero":
        return 0.0
    if kind == "grid":
        return draw(st.integers(1, 2 * n)) / q
    if kind == "isi":
        return draw(st.sampled_from(isis)) / q
    if kind == "double_isi":      # MRTS/4 == a half interval
        return 2 * draw(st.sampled_from(isis)) / q
    if kind == "quarter":
        return draw(st.integers(1, 4 * n)) / (4 * q)
    return (2 * n + draw(st.integers(0, 4))) / q


@st.composite
def maxtau_for(draw, g, allow_none=True, positive_only=False, bite=False):
    q, n = g["q"], g["n"]
    opts = ["grid", "diff", "big", "half", "coinc", "coinc"]
    if bite:
        opts = ["coinc"] * 5 + ["diff", "half"]
    if not positive_only:
        opts += ["zero"]
        if allow_none:
            opts += ["none", "none"]
    if g.get("sparse_far") and not (allow_none and not positive_only and draw(st.integers(0, 3)) == 0):
        # bounds between half and the whole recording, or just above it
        return draw(st.one_of(st.integers(n + 1, 2 * n - 1).map(lambda v: v / (2.0 * q)),
                              st.sampled_from([n, n + 1, 2 * n]).map(lambda v: v / float(q))))
    kind = draw(st.sampled_from(opts))
    if kind == "none":
        return None
    if kind == "zero":
        return 0.0
    diffs = set()
    trs = g["trains"]
    for a in range(len(trs)):
        for b in range(a + 1, len(trs)):
            for s in trs[a]:
                for t in trs[b]:
                    if s != t:
                        diffs.add(abs(s - t))
    diffs = sorted(diffs)[:40] or [1]
    if kind == "coinc":
        # distances of pairs that are coincident without bound (MRTS=0): a
        # max_tau at or just below such a distance is where the bound bites
        from fractions import Fraction as Fr
        from . import oracle as O
        ds = set()
        for x in range(len(trs)):
            for y in range(x + 1, len(trs)):
                a = [Fr(v) for v in trs[x]]
                b = [Fr(v) for v in trs[y]]
                pr, _ = O.coincidences(a, b, Fr(0), Fr(n), Fr(0), None)
                for i, j in pr:
                    if a[i] != b[j]:
                        ds.add(int(abs(a[i] - b[j])))
        if not ds:
            return draw(st.integers(1, 2 * n)) / (2 * q)
        d = draw(st.sampled_from(sorted(ds)))
        return draw(st.sampled_from([2 * d, 2 * d, max(1, 2 * d - 1), max(1, d),
                                     2 * d + 1])) / (2 * q)
    if kind == "grid":
        return draw(st.integers(1, n)) / q
    if kind == "diff":
        return draw(st.sampled_from(diffs)) / q
    if kind == "half":
        return draw(st.integers(1, 2 * n)) / (2 * q)
    return (n + draw(st.integers(0, 3))) / q


@st.composite
def subinterval_for(draw, g):
    """(a, b) floats with t0 <= a < b <= t1; ends on edges, spike times,
    midpoints between events, arbitrary half-grid points"""
    q, k0, n = g["q"], g["k0"], g["n"]
    ev = _uniq_sorted([0, n] + [s for tr in g["trains"] for s in tr])
    ev2 = [2 * e for e in ev]                          # half-grid units
    mids = [a + b for a, b in zip(ev, ev[1:])]         # = 2 * midpoint
    cands = _uniq_sorted(ev2 + mids)

    def end():
        return draw(st.one_of(st.sampled_from(cands), st.integers(0, 2 * n),
                              st.sampled_from([0, 2 * n])))
    a = end()
    b = end()
    if a == b:
        if b < 2 * n:
            b += 1
        else:
            a -= 1
    if a > b:
        a, b = b, a
    return ((2 * k0 + a) / (2 * q), (2 * k0 + b) / (2 * q))


@st.composite
def interval_arg_for(draw, g):
    """None, one sub-interval, or a list of disjoint increasing sub-intervals"""
    kind = draw(st.sampled_from(["none", "one", "one", "list", "whole"]))
    if kind == "none":
        return None
    if kind == "whole":
        # explicitly the whole recording (NOT the same as None for discrete profiles:
        # events exactly on the edges are not strictly inside)
        return [g["k0"] / g["q"], (g["k0"] + g["n"]) / g["q"]]
    if kind == "one":
        return list(draw(subinterval_for(g)))
    q, k0, n = g["q"], g["k0"], g["n"]
    pts = _uniq_sorted(draw(st.lists(st.integers(0, 2 * n), min_size=2, max_size=6)))
    if len(pts) < 2:
        return list(draw(subinterval_for(g)))
    if len(pts) % 2:
        pts = pts[:-1]
    return [[(2 * k0 + pts[i]) / (2 * q), (2 * k0 + pts[i + 1]) / (2 * q)]
            for i in range(0, len(pts), 2)]


def to_interval(iv):
    """JSON list -> what PySpike wants (tuple / list of tuples / None)"""
    if iv is None:
        return None
    if isinstance(iv[0], (list, tuple)):
        return [tuple(x) for x in iv]
    return tuple(iv)


# ---------------------------------------------------------------------------
# float domain
# ---------------------------------------------------------------------------
@st.composite
def float_train_lists(draw, min_trains=2, max_trains=2, max_spikes=8):
    """Valid trains whose times are arbitrary (non-grid) doubles.  Resolution
    floor (an implicit precondition of every real caller): distinct times are at
    least 2^-30 of the recording length apart, except 1-ulp neighbours of times
    of magnitude >= 1e-3 - no gaps so small that their products underflow."""
    t0 = draw(st.integers(-1000, 1000)) + draw(st.integers(0, 1 << 20)) / float(1 << 20)
    ln = draw(st.sampled_from([1e-3, 0.1, 1.0, 3.7, 100.0, 1e3])) * \
        (1 + draw(st.integers(0, 1 << 20)) / float(1 << 20))
    t1 = t0 + ln
    nt = draw(st.integers(min_trains, max_trains))
    trains = []
    allt = []
    for _ in range(nt):
        k = draw(st.integers(0, max_spikes))
        tr = set()
        for _ in range(k):
            kind = draw(st.sampled_from(["f", "f", "f", "copy", "next", "s", "e", "near"]))
            if kind == "f" or (kind in ("copy", "next") and not allt):
                pass
            if kind == "f" or (kind in ("copy", "next") and not allt):
                v = t0 + ln * (draw(st.integers(0, 1 << 30)) / float(1 << 30))
            elif kind == "copy":
                v = draw(st.sampled_from(allt))
            elif kind == "next":
                v = draw(st.sampled_from(allt))
                v = math.nextafter(v, t1) if abs(v) >= 1e-3 else v + ln / (1 << 30)
            elif kind == "near":
                # within ~1e-7 (relative) of an existing time or of an edge
                v = draw(st.sampled_from(allt + [t0, t1]))
                v = v + draw(st.sampled_from([1.0, -1.0])) * max(abs(v), ln) * 2.0 ** -23
            elif kind == "s":
                v = t0
            else:
                v = t1
            if t0 <= v <= t1:
                tr.add(v)
        tr = sorted(tr)
        allt += tr
        trains.append(tr)
    return dict(t0=t0, t1=t1, trains=trains)


def float_mrts(ln):
    return st.one_of(st.none(), st.just(0.0), st.just("auto"),
                     st.integers(1, 1 << 21).map(lambda k: ln * k / float(1 << 20)))


# ---------------------------------------------------------------------------
# exhaustive small-scope helpers
# ---------------------------------------------------------------------------
def subsets(G):
    """all subsets of {0..G} as sorted lists, in binary counting order"""
    for m in range(1 << (G + 1)):
        yield [k for k in range(G + 1) if m >> k & 1]


def subset_of_mask(m, G):
    return [k for k in range(G + 1) if m >> k & 1]
