"""pyxshim - run the .pyx kernels of PySpike without Cython.

No Cython (and no generated C) exists in this sandbox, so the compiled backend
can never be built.  This module transliterates the small Cython subset used by
pyspike/cython/cython_{get_tau,add,profiles,distances,directionality}.pyx into
Python source, executes it and can register the resulting module objects in
sys.modules under their real names.  PySpike imports its kernels lazily inside
every public function, so installing / removing the entries switches a running
process between "compiled kernels importable" and "pure-Python fallback".

C semantics that matter are emulated, not assumed:
  * `double` parameters / typed locals are numpy.float64 (cdivision: x/0 gives
    inf/nan, no exception), `int` ones are Python ints;
  * `double[:]` arguments must be 1-d float64 ndarrays (else ValueError, as
    Cython's buffer check) and - in files that carry the directives
    boundscheck=False / wraparound=False - are wrapped in StrictArray, whose
    integer indexing raises ShimOutOfBounds outside 0..len-1 (undefined behaviour
    in C); a file without those directives (cython_get_tau.pyx) is compiled with
    Cython's checked, wrapping indexing, which is what plain numpy indexing does;
  * np.empty returns NaN-filled memory, so that a read of an uninitialised
    element is visible;
  * slice assignment requires equal extents (Cython raises, numpy broadcasts).
After translation the output is tokenised and any left-over Cython keyword is a
hard error (ShimError): an edit using a construct the shim does not know is loud.
"""
import io
import os
import re
import sys
import tokenize
import types

import numpy as np

SHIM_MODULES = ["cython_get_tau", "cython_add", "cython_profiles",
                "cython_distances", "cython_directionality"]
PKG = "pyspike.cython."


class ShimError(Exception):
    """The shim could not translate a .pyx file (harness error, never a verdict)."""


class ShimOutOfBounds(Exception):
    """An index that would be undefined behaviour in the compiled extension."""


class StrictArray(np.ndarray):
    def __getitem__(self, key):
        if isinstance(key, (int, np.integer)):
            if key < 0 or key >= self.shape[0]:
                raise ShimOutOfBounds("read index %d of %d" % (key, self.shape[0]))
            return np.ndarray.__getitem__(self, key)
        return np.ndarray.__getitem__(self, key)

    def __setitem__(self, key, value):
        if isinstance(key, (int, np.integer)):
            if key < 0 or key >= self.shape[0]:
                raise ShimOutOfBounds("write index %d of %d" % (key, self.shape[0]))
        elif isinstance(key, slice):
            tgt = np.ndarray.__getitem__(self, key)
            v = np.asarray(value)
            if v.ndim >= 1 and v.shape != tgt.shape:
                raise ValueError("Memoryview assignment: differing extents "
                                 "%r vs %r" % (tgt.shape, v.shape))
        np.ndarray.__setitem__(self, key, value)


def _directives(text):
    """#cython: boundscheck=False / wraparound=False header comments of a .pyx file
    (Cython's defaults are True for both)"""
    d = dict(boundscheck=True, wraparound=True)
    for line in text.split("\n")[:40]:
        m = re.match(r"^#\s*cython:\s*(\w+)\s*=\s*(\w+)", line.strip())
        if m and m.group(1) in d:
            d[m.group(1)] = m.group(2).lower() == "true"
    # decorator form (per function; the shim applies it to the whole file, which can
    # only make it stricter: more indices are trapped, never fewer)
    for key in d:
        if re.search(r"^\s*@cython\." + key + r"\(\s*False\s*\)", text, re.M):
            d[key] = False
    return d


def _mv_checked(a, name="?"):
    """`double[:]` parameter in a module compiled WITH bounds checking and wraparound
    (no directive in the file): indexing behaves as in Python (negative indices wrap,
    out-of-range raises IndexError) - nothing undefined to emulate"""
    v = _mv(a, name)
    return np.asarray(v)


def _strict_checked(a):
    return np.asarray(_strict(a))


def _mv(a, name="?"):
    """Emulates passing an object to a `double[:]` parameter."""
    if not isinstance(a, np.ndarray):
        try:
            memoryview(a)
        except TypeError:
            raise TypeError("a bytes-like object is required, not '%s'"
                            % type(a).__name__)
        a = np.asarray(a)
    if a.ndim != 1:
        raise ValueError("Buffer has wrong number of dimensions "
                         "(expected 1, got %d)" % a.ndim)
    if a.dtype != np.float64:
        raise ValueError("Buffer dtype mismatch, expected 'double' but got %s"
                         % a.dtype)
    return a.view(StrictArray)


def _strict(a):
    a = np.asarray(a)
    if a.dtype != np.float64 or a.ndim != 1:
        raise ValueError("Buffer dtype mismatch in typed local")
    return a.view(StrictArray)


_f64 = np.float64


def _cint(v):
    if isinstance(v, (bool, np.bool_)):
        return int(v)
    if isinstance(v, (int, np.integer)):
        return int(v)
    if isinstance(v, (float, np.floating)) and float(v).is_integer() and False:
        return int(v)
    if isinstance(v, (float, np.floating)):
        # Cython refuses floats for C int parameters
        raise TypeError("an integer is required")
    return int(v)


def _icast(v):
    """an explicit C cast to an integer type truncates towards zero"""
    return int(v)


def fabs(x):
    return np.float64(abs(np.float64(x)))


def fmax(a, b):
    a = np.float64(a)
    b = np.float64(b)
    if a != a:
        return b
    if b != b:
        return a
    return a if a >= b else b


def fmin(a, b):
    a = np.float64(a)
    b = np.float64(b)
    if a != a:
        return b
    if b != b:
        return a
    return a if a <= b else b


class _NpProxy(object):
    """numpy with deterministic `empty` (NaN filled)."""

    def __getattr__(self, name):
        return getattr(np, name)

    @staticmethod
    def empty(shape, dtype=float, **kw):
        a = np.empty(shape, dtype=dtype, **kw)
        if a.dtype.kind == "f":
            a.fill(np.nan)
        return a

    @staticmethod
    def empty_like(a, *args, **kw):
        r = np.empty_like(np.asarray(a), *args, **kw)
        if r.dtype.kind == "f":
            r.fill(np.nan)
        return r


NP_PROXY = _NpProxy()

_MV_TYPES = ("const double[::1]", "const double[:]", "double[::1]", "double[:]",
             "np.ndarray[np.float64_t, ndim=1]", "np.ndarray[np.float_t, ndim=1]",
             "np.ndarray[DTYPE_t, ndim=1]", "np.ndarray[DTYPE_t,ndim=1]",
             "np.ndarray[double, ndim=1]", "np.ndarray[double,ndim=1]")
_INT_TYPES = ("unsigned int", "unsigned long", "long long", "Py_ssize_t", "ssize_t", "size_t",
              "int", "long", "bint", "short", "unsigned")
_DBL_TYPES = ("long double", "double", "float", "np.float64_t", "np.float_t", "DTYPE_t")
_CTYPES = _MV_TYPES + _INT_TYPES + _DBL_TYPES


def _norm_type(t):
    if t is None:
        return None
    if t in _MV_TYPES:
        return "double[:]"
    if t in _INT_TYPES:
        return "int"
    if t in _DBL_TYPES:
        return "double"
    return t
_RET = r"(?:long\s+double|double|float|int|long|void|bint|Py_ssize_t|object|tuple|list)"
_TAIL = r"(?:\s*(?:nogil|noexcept|except\s*[-+*?\w.]*))*"
_SIG_RE = re.compile(r"^(\s*)(def|cdef|cpdef)\s+(?:inline\s+)?(?:" + _RET + r"\s+)?"
                     r"(\w+)\s*\((.*)\)" + _TAIL + r"\s*:\s*$", re.S)
_CDEF_FUNC_RE = re.compile(r"^\s*c(?:p)?def\s+(?:inline\s+)?(?:" + _RET + r"\s+)?\w+\s*\(.*\)"
                           + _TAIL + r"\s*:\s*$", re.S)
_VARTYPES = "|".join(re.escape(t) for t in sorted(_CTYPES, key=len, reverse=True))
_CDEF_VAR_RE = re.compile(r"^(\s*)cdef\s+(" + _VARTYPES + r")\s+(.*)$")
_CAST_RE = re.compile(r"<\s*(" + "|".join(re.escape(t) for t in
                                          sorted(_INT_TYPES + _DBL_TYPES, key=len, reverse=True))
                      + r")\s*>")


def _strip_comment(line):
    """Removes a trailing #comment that is outside of string literals."""
    out = []
    q = None
    i = 0
    while i < len(line):
        ch = line[i]
        if q:
            out.append(ch)
            if ch == "\\" and i + 1 < len(line):
                out.append(line[i + 1])
                i += 1
            elif ch == q:
                q = None
        else:
            if ch in "'\"":
                q = ch
                out.append(ch)
            elif ch == "#":
                break
            else:
                out.append(ch)
        i += 1
    return "".join(out).rstrip()


def _logical_lines(text):
    """Joins physical lines into logical lines (backslash and bracket
    continuation), drops comments, keeps triple-quoted blocks verbatim."""
    res = []
    buf = ""
    depth = 0
    in_triple = False
    for raw in text.split("\n"):
        if in_triple:
            res.append(("str", raw))
            if raw.count('"""') % 2 == 1:
                in_triple = False
            continue
        stripped = raw.strip()
        if not buf and stripped.startswith('"""'):
            res.append(("str", raw))
            if stripped.count('"""') % 2 == 1:
                in_triple = True
            continue
        line = _strip_comment(raw)
        if not line.strip():
            if not buf:
                continue
            continue
        cont = line.endswith("\\")
        if cont:
            line = line[:-1].rstrip()
        for ch in line:
            if ch in "([{":
                depth += 1
            elif ch in ")]}":
                depth -= 1
        buf = (buf + " " + line.strip()) if buf else line
        if depth > 0 or cont:
            continue
        res.append(("code", buf))
        buf = ""
        depth = 0
    if buf:
        raise ShimError("unterminated logical line: %r" % buf[:80])
    return res


def _split_args(s):
    args = []
    depth = 0
    cur = ""
    for ch in s:
        if ch in "([{":
            depth += 1
        elif ch in ")]}":
            depth -= 1
        if ch == "," and depth == 0:
            args.append(cur.strip())
            cur = ""
        else:
            cur += ch
    if cur.strip():
        args.append(cur.strip())
    return args


def _parse_arg(a):
    """'double[:] s1' / 'double MRTS=0.' / 'int RI = 0' / 'a' ->
    (ctype or None, name, default or None)"""
    default = None
    depth = 0
    for pos, ch in enumerate(a):
        if ch in "([{":
            depth += 1
        elif ch in ")]}":
            depth -= 1
        elif ch == "=" and depth == 0:
            a, default = a[:pos].strip(), a[pos + 1:].strip()
            break
    ctype = None
    for t in sorted(_CTYPES, key=len, reverse=True):
        if a.startswith(t + " ") or a.startswith(t + "\t"):
            ctype = _norm_type(t)
            a = a[len(t):].strip()
            break
    if not re.match(r"^\w+$", a):
        raise ShimError("cannot parse argument %r" % a)
    return ctype, a, default


def translate(text, modname="?"):
    """Cython subset -> Python source."""
    out = []
    # typed locals of the function currently being translated
    types_stack = [dict()]
    func_indent = [-1]

    cdef_block_indent = [None]

    def cur_types():
        return types_stack[-1]

    for kind, line in _logical_lines(text):
        if kind == "str":
            out.append(line)
            continue
        indent = len(line) - len(line.lstrip())
        body = line.strip()
        # leaving function scope(s)?
        while len(func_indent) > 1 and indent <= func_indent[-1]:
            func_indent.pop()
            types_stack.pop()
        if re.match(r"^(from\s+\S+\s+)?cimport\b", body):
            continue
        if re.match(r"^@cython\.\w+(\(.*\))?$", body) or re.match(r"^@cython\.\w+$", body):
            continue          # compiler directives given as decorators
        if body.startswith("ctypedef") or re.match(r"^DEF\s", body):
            continue
        if body in ("cdef:", "cdef nogil:"):
            # a block of declarations: its (deeper indented) lines are handled below
            cdef_block_indent[0] = indent
            continue
        if cdef_block_indent[0] is not None:
            if indent > cdef_block_indent[0]:
                line = " " * cdef_block_indent[0] + "cdef " + body
                indent = cdef_block_indent[0]
                body = line.strip()
            else:
                cdef_block_indent[0] = None
        # C casts  <double>x  /  <int>(expr)
        line = _cast(line)
        body = line.strip()
        m = _SIG_RE.match(line)
        if m and (m.group(2) == "def" or _CDEF_FUNC_RE.match(line)):
            ind, _, name, argstr = m.groups()
            args = [_parse_arg(a) for a in _split_args(argstr)]
            pyargs = ", ".join(n if d is None else "%s=%s" % (n, d)
                               for (_, n, d) in args)
            out.append("%sdef %s(%s):" % (ind, name, pyargs))
            types_stack.append(dict())
            func_indent.append(indent)
            binds = []
            for (t, n, _) in args:
                if t == "double[:]":
                    binds.append("%s = _mv(%s, %r)" % (n, n, n))
                    cur_types()[n] = "double[:]"
                elif t in ("double", "float"):
                    binds.append("%s = _f64(%s)" % (n, n))
                    cur_types()[n] = "double"
                elif t in ("int", "long", "bint"):
                    binds.append("%s = _cint(%s)" % (n, n))
                    cur_types()[n] = "int"
            out.append("%s    %s" % (ind, "; ".join(binds) if binds else "pass"))
            continue
        m = _CDEF_VAR_RE.match(line)
        if m:
            ind, ctype, rest = m.groups()
            ctype = _norm_type(ctype)
            if "=" in rest:
                name, expr = rest.split("=", 1)
                name = name.strip()
                if not re.match(r"^\w+$", name):
                    raise ShimError("cannot parse cdef %r" % line)
                cur_types()[name] = ctype
                out.append("%s%s = %s" % (ind, name, _wrap(ctype, expr.strip())))
            else:
                for name in rest.split(","):
                    name = name.strip()
                    if not re.match(r"^\w+$", name):
                        raise ShimError("cannot parse cdef %r" % line)
                    cur_types()[name] = ctype
                out.append("%spass" % ind)
            continue
        if body.startswith("cdef") or body.startswith("cpdef"):
            raise ShimError("unsupported cdef construct in %s: %r" % (modname, line))
        if re.match(r"^with\s+(nogil|gil)\s*:$", body):
            out.append(" " * indent + "if True:")
            continue
        line = re.sub(r"\bxrange\b", "range", line)
        # plain assignment to a typed local:  name = expr
        m = re.match(r"^(\s*)(\w+)\s*=(?!=)\s*(.+)$", line)
        if m and m.group(2) in cur_types():
            ind, name, expr = m.groups()
            out.append("%s%s = %s" % (ind, name, _wrap(cur_types()[name], expr)))
            continue
        out.append(line)
    src = "\n".join(out) + "\n"
    _check_leftovers(src, modname)
    return src


def _cast(line):
    """<double>x, <int>(expr) -> _f64(x), _cint((expr)) for a simple operand"""
    def repl(m):
        fn = "_icast" if m.group(1) in _INT_TYPES else "_f64"
        rest = m.string[m.end():]
        # operand: a parenthesised expression or a name/attribute/index/call chain
        j = 0
        depth = 0
        while j < len(rest):
            ch = rest[j]
            if ch in "([":
                depth += 1
            elif ch in ")]":
                if depth == 0:
                    break
                depth -= 1
            elif depth == 0 and not (ch.isalnum() or ch in "_."):
                break
            j += 1
        repl.consumed = j
        return fn + "(" + rest[:j] + ")"
    out = ""
    pos = 0
    while True:
        m = _CAST_RE.search(line, pos)
        if not m:
            out += line[pos:]
            break
        out += line[pos:m.start()]
        piece = repl(m)
        out += piece
        pos = m.end() + repl.consumed
    return out


def _wrap(ctype, expr):
    if ctype == "double":
        return "_f64(%s)" % expr
    if ctype == "int":
        return "_cint(%s)" % expr
    if ctype == "double[:]":
        return "_strict(%s)" % expr
    raise ShimError("unknown ctype %r" % ctype)


_FORBIDDEN = {"cdef", "cimport", "cpdef", "ctypedef", "nogil", "double", "inline",
              "xrange", "bint", "extern", "struct", "prange", "gil"}


def _check_leftovers(src, modname):
    try:
        toks = list(tokenize.generate_tokens(io.StringIO(src).readline))
    except (tokenize.TokenError, IndentationError, SyntaxError) as e:
        raise ShimError("translated %s does not tokenise: %s" % (modname, e))
    for t in toks:
        if t.type == tokenize.NAME and t.string in _FORBIDDEN:
            raise ShimError("left-over Cython construct %r in %s line %d: %r"
                            % (t.string, modname, t.start[0], t.line.strip()))
    try:
        compile(src, "<shim:%s>" % modname, "exec")
    except SyntaxError as e:
        raise ShimError("translated %s does not compile: %s (line %r)"
                        % (modname, e, e.text))


class Shim(object):
    """Builds the five kernel modules from <repo>/pyspike/cython/*.pyx."""

    def __init__(self, repo):
        self.repo = repo
        self.modules = {}
        self.sources = {}
        cdir = os.path.join(repo, "pyspike", "cython")
        for name in SHIM_MODULES:
            path = os.path.join(cdir, name + ".pyx")
            with open(path) as f:
                text = f.read()
            src = translate(text, name)
            self.sources[name] = src
            mod = types.ModuleType(PKG + name)
            mod.__file__ = path + " (shim)"
            dirs = _directives(text)
            unchecked = not dirs["boundscheck"] or not dirs["wraparound"]
            mod.__dict__.update(dict(
                _mv=_mv if unchecked else _mv_checked,
                _strict=_strict if unchecked else _strict_checked,
                _f64=_f64, _cint=_cint, _icast=_icast, fabs=fabs, fmax=fmax, fmin=fmin))
            mod.__shim_directives__ = dirs
            import math as _m
            for nm in ("sqrt", "floor", "ceil", "exp", "log", "pow", "isnan", "isinf"):
                mod.__dict__.setdefault(nm, getattr(_m, nm))
            if name != "cython_get_tau":
                mod.__dict__["get_tau"] = self.modules["cython_get_tau"].get_tau
            code = compile(src, "<shim:%s>" % name, "exec")
            try:
                exec(code, mod.__dict__)
            except Exception as e:
                raise ShimError("executing translated %s failed: %r" % (name, e))
            # `import numpy as np` ran inside: replace by the deterministic proxy
            if "np" in mod.__dict__:
                mod.__dict__["np"] = NP_PROXY
            self.modules[name] = mod
        self.installed = False

    def install(self):
        import pyspike.cython as pkg
        for name, mod in self.modules.items():
            sys.modules[PKG + name] = mod
            setattr(pkg, name, mod)
        self.installed = True

    def uninstall(self):
        import pyspike.cython as pkg
        for name in self.modules:
            sys.modules.pop(PKG + name, None)
            if hasattr(pkg, name):
                try:
                    delattr(pkg, name)
                except AttributeError:
                    pass
        self.installed = False

    def set(self, compiled):
        if compiled and not self.installed:
            self.install()
        elif not compiled and self.installed:
            self.uninstall()

    def fn(self, module, name):
        return getattr(self.modules[module], name)


class DeadShim(object):
    """Stands in when the .pyx files cannot be transliterated (an edit that uses a
    construct the shim does not know): the 'compiled' configuration is then NOT
    available; cases that ask for it run on the fallback and say so in the evidence.
    Better than losing every check over a syntax the shim lacks."""
    ok = False
    installed = False
    modules = {}

    def __init__(self, error):
        self.error = error

    def install(self):
        pass

    def uninstall(self):
        pass

    def set(self, compiled):
        pass

    def fn(self, module, name):
        raise ShimError("compiled kernels unavailable: " + self.error)


Shim.ok = True
