"""pyxshim - run the .pyx kernels of PySpike without Cython.

No Cython (and no generated C) exists in this sandbox, so the compiled backend
can never be built.  This module transliterates the small Cython subset used by
pyspike/cython/cython_{get_tau,add,profiles,distances,directionality}.pyx into
Python source, executes it and can register the resulting module objects in
sys.modules under their real names.  PySpike imports its kernels lazily inside
every public function, so installing / removing the entries switches a running
process between "compiled kernels importable" and "pure-Python fallback".

C semantics that matter are emulated, not assumed:
  * `double` parameters / typed locals are numpy.float64 (cdivision: x/0 gives
    inf/nan, no exception), `int` ones are Python ints;
  * `double[:]` arguments must be 1-d float64 ndarrays (else ValueError, as
    Cython's buffer check) and - in files that carry the directives
    boundscheck=False / wraparound=False - are wrapped in StrictArray, whose
    integer indexing raises ShimOutOfBounds outside 0..len-1 (undefined behaviour
    in C); a file without those directives (cython_get_tau.pyx) is compiled with
    Cython's checked, wrapping indexing, which is what plain numpy indexing does;
  * np.empty returns NaN-filled memory, so that a read of an uninitialised
    element is visible;
  * slice assignment requires equal extents (Cython raises, numpy broadcasts).
After translation the output is tokenised and any left-over Cython keyword is a
hard error (ShimError): an edit using a construct the shim does not know is loud.
"""
import io
import os
import re
import sys
import tokenize
import types

import numpy as np

SHIM_MODULES = ["cython_get_tau", "cython_add", "cython_profiles",
                "cython_distances", "cython_directionality"]
PKG = "pyspike.cython."


class ShimError(Exception):
    """The shim could not translate a .pyx file (harness error, never a verdict)."""


class ShimOutOfBounds(Exception):
    """An index that would be undefined behaviour in the compiled extension."""


def shim_gap(exc):
    """True when an exception raised while executing transliterated .pyx code shows
    that the transliteration (not the library) is at fault: an undefined name.  Cython
    rejects undeclared names at compile time, so a tree whose .pyx really contains one
    does not build; either way it is not a verdict about the property."""
    if not isinstance(exc, NameError) or isinstance(exc, UnboundLocalError):
        return False
    tb = exc.__traceback__
    last = None
    while tb is not None:
        last = tb
        tb = tb.tb_next
    return last is not None and last.tb_frame.f_code.co_filename.startswith("<shim:")


class StrictArray(np.ndarray):
    def __iter__(self):
        # iteration through the sequence protocol would end on IndexError only; a
        # kernel array that reaches the caller (and is iterated there) is plain data
        return iter(self.view(np.ndarray))

    def __getitem__(self, key):
        if isinstance(key, (int, np.integer)):
            if key < 0 or key >= self.shape[0]:
                raise ShimOutOfBounds("read index %d of %d" % (key, self.shape[0]))
            return np.ndarray.__getitem__(self, key)
        return np.ndarray.__getitem__(self, key)

    def __setitem__(self, key, value):
        if isinstance(key, (int, np.integer)):
            if key < 0 or key >= self.shape[0]:
                raise ShimOutOfBounds("write index %d of %d" % (key, self.shape[0]))
        elif isinstance(key, slice):
            tgt = np.ndarray.__getitem__(self, key)
            v = np.asarray(value)
            if v.ndim >= 1 and v.shape != tgt.shape:
                raise ValueError("Memoryview assignment: differing extents "
                                 "%r vs %r" % (tgt.shape, v.shape))
        np.ndarray.__setitem__(self, key, value)


def _directives(text):
    """#cython: boundscheck=False / wraparound=False header comments of a .pyx file
    (Cython's defaults are True for both)"""
    d = dict(boundscheck=True, wraparound=True)
    for line in text.split("\n")[:40]:
        m = re.match(r"^#\s*cython:\s*(\w+)\s*=\s*(\w+)", line.strip())
        if m and m.group(1) in d:
            d[m.group(1)] = m.group(2).lower() == "true"
    # decorator form (per function; the shim applies it to the whole file, which can
    # only make it stricter: more indices are trapped, never fewer)
    for key in d:
        if re.search(r"^\s*@cython\." + key + r"\(\s*False\s*\)", text, re.M):
            d[key] = False
    return d


def _mv_checked(a, name="?"):
    """`double[:]` parameter in a module compiled WITH bounds checking and wraparound
    (no directive in the file): indexing behaves as in Python (negative indices wrap,
    out-of-range raises IndexError) - nothing undefined to emulate"""
    v = _mv(a, name)
    return np.asarray(v)


def _strict_checked(a):
    return np.asarray(_strict(a))


def _mv(a, name="?"):
    """Emulates passing an object to a `double[:]` parameter."""
    if not isinstance(a, np.ndarray):
        try:
            memoryview(a)
        except TypeError:
            raise TypeError("a bytes-like object is required, not '%s'"
                            % type(a).__name__)
        a = np.asarray(a)
    if a.ndim != 1:
        raise ValueError("Buffer has wrong number of dimensions "
                         "(expected 1, got %d)" % a.ndim)
    if a.dtype != np.float64:
        raise ValueError("Buffer dtype mismatch, expected 'double' but got %s"
                         % a.dtype)
    return a.view(StrictArray)


def _strict(a):
    a = np.asarray(a)
    if a.dtype != np.float64 or a.ndim != 1:
        raise ValueError("Buffer dtype mismatch in typed local")
    return a.view(StrictArray)


_f64 = np.float64


def _cint(v):
    if isinstance(v, (bool, np.bool_)):
        return int(v)
    if isinstance(v, (int, np.integer)):
        return int(v)
    if isinstance(v, (float, np.floating)) and float(v).is_integer() and False:
        return int(v)
    if isinstance(v, (float, np.floating)):
        # Cython refuses floats for C int parameters
        raise TypeError("an integer is required")
    return int(v)


def _icast(v):
    """an explicit C cast to an integer type truncates towards zero"""
    return int(v)


_INT_POISON = -(2 ** 31)


class _Struct(object):
    """A C struct: typed fields, uninitialised on declaration (doubles NaN, integers
    a poison value that traps when used as an index), `p[0]` dereferences."""
    _fields = ()

    def __init__(self):
        for name, ctype, size in self._fields:
            if size is not None:
                object.__setattr__(self, name, np.full(int(size), np.nan) if ctype == "double"
                                   else np.full(int(size), _INT_POISON, dtype=np.int64))
            else:
                object.__setattr__(self, name, np.float64(np.nan) if ctype == "double"
                                   else _INT_POISON)

    def __setattr__(self, name, v):
        for fname, ctype, size in self._fields:
            if fname == name:
                if size is not None:
                    raise ShimError("assignment to a C array member")
                object.__setattr__(self, name, _f64(v) if ctype == "double" else _cint(v))
                return
        raise AttributeError("struct has no member %r" % name)

    def __getitem__(self, k):
        if k != 0:
            raise ShimOutOfBounds("pointer arithmetic on a struct pointer")
        return self


def fabs(x):
    return np.float64(abs(np.float64(x)))


def fmax(a, b):
    a = np.float64(a)
    b = np.float64(b)
    if a != a:
        return b
    if b != b:
        return a
    return a if a >= b else b


def fmin(a, b):
    a = np.float64(a)
    b = np.float64(b)
    if a != a:
        return b
    if b != b:
        return a
    return a if a <= b else b


class _NpProxy(object):
    """numpy with deterministic `empty` (NaN filled)."""

    def __getattr__(self, name):
        return getattr(np, name)

    @staticmethod
    def empty(shape, dtype=float, **kw):
        a = np.empty(shape, dtype=dtype, **kw)
        if a.dtype.kind == "f":
            a.fill(np.nan)
        return a

    @staticmethod
    def empty_like(a, *args, **kw):
        r = np.empty_like(np.asarray(a), *args, **kw)
        if r.dtype.kind == "f":
            r.fill(np.nan)
        return r


NP_PROXY = _NpProxy()

_MV_TYPES = ("const double[::1]", "const double[:]", "double[::1]", "double[:]",
             "np.ndarray[np.float64_t, ndim=1]", "np.ndarray[np.float_t, ndim=1]",
             "np.ndarray[DTYPE_t, ndim=1]", "np.ndarray[DTYPE_t,ndim=1]",
             "np.ndarray[double, ndim=1]", "np.ndarray[double,ndim=1]")
_INT_TYPES = ("unsigned int", "unsigned long", "long long", "Py_ssize_t", "ssize_t", "size_t",
              "int", "long", "bint", "short", "unsigned")
_DBL_TYPES = ("long double", "double", "float", "np.float64_t", "np.float_t", "DTYPE_t")
_CTYPES = _MV_TYPES + _INT_TYPES + _DBL_TYPES


def _norm_type(t):
    if t is None:
        return None
    if t in _MV_TYPES:
        return "double[:]"
    if t in _INT_TYPES:
        return "int"
    if t in _DBL_TYPES:
        return "double"
    return t
_RET = (r"(?:" + "|".join(re.escape(t).replace(r"\ ", r"\s+") for t in
                          sorted(_INT_TYPES + _DBL_TYPES, key=len, reverse=True))
        + r"|void|object|tuple|list|\([\w\s,.]*\))")
_TAIL = r"(?:\s*(?:nogil|noexcept|except\s*\??\s*[-+*\w.]*))*"
_SIG_RE = re.compile(r"^(\s*)(def|cdef|cpdef)\s+(?:inline\s+)?(?:" + _RET + r"\s+)?"
                     r"(\w+)\s*\((.*)\)" + _TAIL + r"\s*:\s*$", re.S)
_CDEF_FUNC_RE = re.compile(r"^\s*c(?:p)?def\s+(?:inline\s+)?(?:" + _RET + r"\s+)?\w+\s*\(.*\)"
                           + _TAIL + r"\s*:\s*$", re.S)
_VARTYPES = "|".join(re.escape(t) for t in sorted(_CTYPES, key=len, reverse=True))
_CDEF_VAR_RE = re.compile(r"^(\s*)cdef\s+(" + _VARTYPES + r")\s+(.*)$")
_CAST_RE = re.compile(r"<\s*(" + "|".join(re.escape(t) for t in
                                          sorted(_INT_TYPES + _DBL_TYPES, key=len, reverse=True))
                      + r")\s*>")


def _strip_comment(line):
    """Removes a trailing #comment that is outside of string literals."""
    out = []
    q = None
    i = 0
    while i < len(line):
        ch = line[i]
        if q:
            out.append(ch)
            if ch == "\\" and i + 1 < len(line):
                out.append(line[i + 1])
                i += 1
            elif ch == q:
                q = None
        else:
            if ch in "'\"":
                q = ch
                out.append(ch)
            elif ch == "#":
                break
            else:
                out.append(ch)
        i += 1
    return "".join(out).rstrip()


def _logical_lines(text):
    """Joins physical lines into logical lines (backslash and bracket
    continuation), drops comments, keeps triple-quoted blocks verbatim."""
    res = []
    buf = ""
    depth = 0
    in_triple = False
    for raw in text.split("\n"):
        if in_triple:
            res.append(("str", raw))
            if raw.count('"""') % 2 == 1:
                in_triple = False
            continue
        stripped = raw.strip()
        if not buf and stripped.startswith('"""'):
            res.append(("str", raw))
            if stripped.count('"""') % 2 == 1:
                in_triple = True
            continue
        line = _strip_comment(raw)
        if not line.strip():
            if not buf:
                continue
            continue
        cont = line.endswith("\\")
        if cont:
            line = line[:-1].rstrip()
        for ch in line:
            if ch in "([{":
                depth += 1
            elif ch in ")]}":
                depth -= 1
        buf = (buf + " " + line.strip()) if buf else line
        if depth > 0 or cont:
            continue
        res.append(("code", buf))
        buf = ""
        depth = 0
    if buf:
        raise ShimError("unterminated logical line: %r" % buf[:80])
    return res


def _split_args(s):
    args = []
    depth = 0
    cur = ""
    for ch in s:
        if ch in "([{":
            depth += 1
        elif ch in ")]}":
            depth -= 1
        if ch == "," and depth == 0:
            args.append(cur.strip())
            cur = ""
        else:
            cur += ch
    if cur.strip():
        args.append(cur.strip())
    return args


_MV_RE = re.compile(
    r"^(?:const\s+)?(?:double|np\.float64_t|np\.float_t|np\.double_t)\s*\[\s*::?\s*1?\s*\]"
    r"|^np\.ndarray\s*\[\s*(?:np\.float64_t|np\.float_t|np\.double_t|double)\s*,\s*ndim\s*=\s*1\s*"
    r"(?:,\s*mode\s*=\s*['\"]c['\"]\s*)?\]")
_SCALAR_RES = [(re.compile(r"^(?:const\s+)?" + re.escape(t).replace(r"\ ", r"\s+") + r"(?![\w.\[])"),
                _norm_type(t))
               for t in sorted(_INT_TYPES + _DBL_TYPES, key=len, reverse=True)]


def _match_type(s):
    """-> (normalised type or None, remainder of s)"""
    m = _MV2_RE.match(s)
    if m:
        return "double[:,:]", s[m.end():].strip()
    m = _MV_RE.match(s)
    if m:
        return "double[:]", s[m.end():].strip()
    for rx, nt in _SCALAR_RES:
        m = rx.match(s)
        if m and s[m.end():m.end() + 1] in (" ", "\t"):
            return nt, s[m.end():].strip()
    return None, s


def _split_assign(body):
    """splits a statement at its top-level assignment signs ('=' that is not part of
    ==, <=, >=, !=, +=, ... and not inside brackets or strings)"""
    parts = []
    cur = ""
    depth = 0
    q = None
    i = 0
    while i < len(body):
        ch = body[i]
        if q:
            cur += ch
            if ch == "\\" and i + 1 < len(body):
                cur += body[i + 1]
                i += 1
            elif ch == q:
                q = None
        elif ch in "'\"":
            q = ch
            cur += ch
        elif ch in "([{":
            depth += 1
            cur += ch
        elif ch in ")]}":
            depth -= 1
            cur += ch
        elif (ch == "=" and depth == 0 and body[i + 1:i + 2] != "="
              and (i == 0 or body[i - 1] not in "=!<>+-*/%&|^@:")):
            parts.append(cur)
            cur = ""
        else:
            cur += ch
        i += 1
    parts.append(cur)
    return parts


_MV2_RE = re.compile(r"^(?:const\s+)?(?:double|np\.float64_t|np\.float_t|np\.double_t)\s*"
                     r"\[\s*::?\s*1?\s*,\s*::?\s*1?\s*\]"
                     r"|^np\.ndarray\s*\[\s*(?:np\.float64_t|np\.float_t|np\.double_t|double)\s*,"
                     r"\s*ndim\s*=\s*2\s*(?:,\s*mode\s*=\s*['\"]c['\"]\s*)?\]")


def _mv2(a):
    """a `double[:, :]` parameter or typed local: 2-D float64 buffer (numpy's own index
    checking applies: out-of-range raises, negative indices wrap)"""
    a = np.asarray(a)
    if a.ndim != 2:
        raise ValueError("Buffer has wrong number of dimensions (expected 2, got %d)" % a.ndim)
    if a.dtype != np.float64:
        raise ValueError("Buffer dtype mismatch, expected 'double' but got %s" % a.dtype)
    return a


def _parse_arg(a):
    """'double[:] s1' / 'double MRTS=0.' / 'int RI = 0' / 'a' ->
    (ctype or None, name, default or None)"""
    default = None
    depth = 0
    for pos, ch in enumerate(a):
        if ch in "([{":
            depth += 1
        elif ch in ")]}":
            depth -= 1
        elif ch == "=" and depth == 0:
            a, default = a[:pos].strip(), a[pos + 1:].strip()
            break
    ctype, a = _match_type(a)
    mp = re.match(r"^(?:const\s+)?\w+\s*\*\s*(\w+)$", a)
    if ctype is None and mp:
        a = mp.group(1)          # pointer to a struct: passed by reference as it is
    if not re.match(r"^\w+$", a):
        raise ShimError("cannot parse argument %r" % a)
    return ctype, a, default


def _prepass(text):
    """ctypedef aliases of scalar types are substituted textually; DEF constants and
    the members of anonymous `cdef enum:` blocks become module-level assignments."""
    aliases = {}
    lines = []
    enum_indent = None
    struct = None          # (indent, name, fields)
    structs = set()

    def close_struct():
        ind, name, fields = struct
        lines.append(" " * ind + "class %s(_Struct):" % name)
        lines.append(" " * ind + "    _fields = (%s)" % "".join(
            "(%r, %r, %s), " % (f, t, sz if sz is not None else "None") for f, t, sz in fields))
        structs.add(name)

    for raw in text.split("\n"):
        code = _strip_comment(raw)
        body = code.strip()
        indent = len(code) - len(code.lstrip())
        if struct is not None:
            if body and indent > struct[0]:
                # <type> name[, name...]  or  <type> name[SIZE]   (aliases resolved later:
                # remember the raw type word(s))
                mm = re.match(r"^(.*?)\s+([\w\s,\[\]]+)$", body)
                if not mm:
                    raise ShimError("cannot parse struct member %r" % body)
                for item in mm.group(2).split(","):
                    item = item.strip()
                    ms = re.match(r"^(\w+)\s*\[\s*(\w+)\s*\]$", item)
                    if ms:
                        struct[2].append((ms.group(1), mm.group(1).strip(), ms.group(2)))
                    elif re.match(r"^\w+$", item):
                        struct[2].append((item, mm.group(1).strip(), None))
                    else:
                        raise ShimError("cannot parse struct member %r" % body)
                continue
            if body:
                close_struct()
                struct = None
        m = re.match(r"^c(?:type)?def\s+struct\s+(\w+)\s*:$", body)
        if m:
            struct = (indent, m.group(1), [])
            continue
        if enum_indent is not None:
            if body and indent > enum_indent:
                for item in body.split(","):
                    item = item.strip()
                    if not item:
                        continue
                    if "=" in item:
                        name, val = [x.strip() for x in item.split("=", 1)]
                        lines.append(" " * enum_indent + "%s = %s" % (name, val))
                        lines.append(" " * enum_indent + "_enum_next = %s + 1" % name)
                    else:
                        lines.append(" " * enum_indent + "%s = _enum_next" % item)
                        lines.append(" " * enum_indent + "_enum_next = %s + 1" % item)
                continue
            if body:
                enum_indent = None
        m = re.match(r"^ctypedef\s+(.+?)\s+(\w+)$", body)
        if m and not m.group(1).startswith(("struct", "enum", "union", "fused")):
            aliases[m.group(2)] = m.group(1).strip()
            continue
        m = re.match(r"^DEF\s+(\w+)\s*=\s*(.+)$", body)
        if m:
            lines.append(" " * indent + "%s = %s" % (m.group(1), m.group(2)))
            continue
        if re.match(r"^c(p)?def\s+enum\s*:$", body):
            enum_indent = indent
            lines.append(" " * indent + "_enum_next = 0")
            continue
        lines.append(raw)
    if struct is not None:
        close_struct()
    text = "\n".join(lines)
    # aliases may refer to aliases
    for _ in range(4):
        for a, t in list(aliases.items()):
            for b in aliases:
                aliases[a] = re.sub(r"\b%s\b" % re.escape(b), aliases[b], aliases[a]) \
                    if b != a else aliases[a]
    for a, t in aliases.items():
        text = re.sub(r"(?<![\w.])%s\b" % re.escape(a), t, text)
    # member types of the structs -> normalised
    def fix_fields(m):
        items = re.findall(r"\('(\w+)', '([^']*)', (\w+)\)", m.group(0))
        out = []
        for f, t, sz in items:
            nt, rest = _match_type(t + " x")
            if nt not in ("double", "int"):
                raise ShimError("unsupported struct member type %r" % t)
            out.append("(%r, %r, %s), " % (f, nt, sz))
        return "_fields = (" + "".join(out) + ")"
    text = re.sub(r"_fields = \(.*\)", fix_fields, text)
    if structs:
        # address-of: f(&st1) -> f(st1)
        text = re.sub(r"(?<=[(,\s=])&(?=[A-Za-z_])", "", text)
    return text, structs


def translate(text, modname="?"):
    """Cython subset -> Python source."""
    text, structs = _prepass(text)
    out = []
    # typed locals of the function currently being translated
    types_stack = [dict()]
    func_indent = [-1]

    cdef_block_indent = [None]

    def cur_types():
        return types_stack[-1]

    for kind, line in _logical_lines(text):
        if kind == "str":
            out.append(line)
            continue
        indent = len(line) - len(line.lstrip())
        body = line.strip()
        # leaving function scope(s)?
        while len(func_indent) > 1 and indent <= func_indent[-1]:
            func_indent.pop()
            types_stack.pop()
        if re.match(r"^(from\s+\S+\s+)?cimport\b", body):
            # aliases:  from libc.math cimport fmin as c_fmin / cimport numpy as cnp
            mm = re.match(r"^from\s+\S+\s+cimport\s+(.*)$", body)
            if mm:
                for item in mm.group(1).strip("() ").split(","):
                    ma = re.match(r"^\s*(\w+)\s+as\s+(\w+)\s*$", item)
                    if ma:
                        out.append(" " * indent + "%s = %s" % (ma.group(2), ma.group(1)))
            mm = re.match(r"^cimport\s+numpy\s+as\s+(\w+)$", body)
            if mm and mm.group(1) != "np":
                out.append(" " * indent + "%s = np" % mm.group(1))
            continue
        if re.match(r"^@cython\.\w+(\(.*\))?$", body) or re.match(r"^@cython\.\w+$", body):
            continue          # compiler directives given as decorators
        if body.startswith("ctypedef") or re.match(r"^DEF\s", body):
            continue
        if body in ("cdef:", "cdef nogil:"):
            # a block of declarations: its (deeper indented) lines are handled below
            cdef_block_indent[0] = indent
            continue
        if cdef_block_indent[0] is not None:
            if indent > cdef_block_indent[0]:
                line = " " * cdef_block_indent[0] + "cdef " + body
                indent = cdef_block_indent[0]
                body = line.strip()
            else:
                cdef_block_indent[0] = None
        # C casts  <double>x  /  <int>(expr)
        line = _cast(line)
        body = line.strip()
        m = _SIG_RE.match(line)
        if m and (m.group(2) == "def" or _CDEF_FUNC_RE.match(line)):
            ind, _, name, argstr = m.groups()
            args = [_parse_arg(a) for a in _split_args(argstr)]
            pyargs = ", ".join(n if d is None else "%s=%s" % (n, d)
                               for (_, n, d) in args)
            out.append("%sdef %s(%s):" % (ind, name, pyargs))
            types_stack.append(dict())
            func_indent.append(indent)
            binds = []
            for (t, n, _) in args:
                if t == "double[:,:]":
                    binds.append("%s = _mv2(%s)" % (n, n))
                    cur_types()[n] = "double[:,:]"
                elif t == "double[:]":
                    binds.append("%s = _mv(%s, %r)" % (n, n, n))
                    cur_types()[n] = "double[:]"
                elif t in ("double", "float"):
                    binds.append("%s = _f64(%s)" % (n, n))
                    cur_types()[n] = "double"
                elif t in ("int", "long", "bint"):
                    binds.append("%s = _cint(%s)" % (n, n))
                    cur_types()[n] = "int"
            out.append("%s    %s" % (ind, "; ".join(binds) if binds else "pass"))
            continue
        if re.match(r"^\w+\.import_array\(\)$", body):
            continue
        m = re.match(r"^(\s*)cdef\s+(\w+)\s+([\w\s,]+)$", line)
        if m and m.group(2) in structs:
            out.append(m.group(1) + "; ".join("%s = %s()" % (n.strip(), m.group(2))
                                              for n in m.group(3).split(",")))
            continue
        m = re.match(r"^(\s*)cdef\s+(.*)$", line)
        ctype, rest = _match_type(m.group(2)) if m else (None, None)
        if m and ctype is not None and not re.match(r"^\w+\s*\(", rest):
            ind = m.group(1)
            stmts = []
            for item in _split_args(rest):
                if "=" in item:
                    name, expr = item.split("=", 1)
                    name = name.strip()
                else:
                    name, expr = item.strip(), None
                if not re.match(r"^\w+$", name):
                    raise ShimError("cannot parse cdef %r" % line)
                cur_types()[name] = ctype
                if expr is not None:
                    stmts.append("%s = %s" % (name, _wrap(ctype, expr.strip())))
            out.append("%s%s" % (ind, "; ".join(stmts) if stmts else "pass"))
            continue
        if body.startswith("cdef") or body.startswith("cpdef"):
            raise ShimError("unsupported cdef construct in %s: %r" % (modname, line))
        if re.match(r"^with\s+(nogil|gil)\s*:$", body):
            out.append(" " * indent + "if True:")
            continue
        line = re.sub(r"\bxrange\b", "range", line)
        # assignment to typed locals:  name = expr / a = b = expr / a, b = expr
        parts = _split_assign(body)
        if len(parts) >= 2 and not re.match(
                r"^(if|elif|else|for|while|return|assert|with|try|except|finally|print|"
                r"raise|del|import|from|global|lambda|yield|pass|break|continue)\b", body):
            ind = " " * indent
            targets = [p_.strip() for p_ in parts[:-1]]
            expr = parts[-1].strip()
            if len(targets) == 1 and targets[0] in cur_types():
                out.append("%s%s = %s" % (ind, targets[0], _wrap(cur_types()[targets[0]], expr)))
                continue
            names = []
            for t in targets:
                t = t.strip()
                if t.startswith("(") and t.endswith(")"):
                    t = t[1:-1]
                for n in _split_args(t):
                    if re.match(r"^\w+$", n) and n in cur_types() and n not in names:
                        names.append(n)
            out.append(line)
            for n in names:
                out.append("%s%s = %s" % (ind, n, _wrap(cur_types()[n], n)))
            continue
        out.append(line)
    src = "\n".join(out) + "\n"
    _check_leftovers(src, modname)
    return src


def _cast(line):
    """<double>x, <int>(expr) -> _f64(x), _cint((expr)) for a simple operand"""
    def repl(m):
        fn = "_icast" if m.group(1) in _INT_TYPES else "_f64"
        rest = m.string[m.end():]
        # operand: a parenthesised expression or a name/attribute/index/call chain
        j = 0
        depth = 0
        while j < len(rest):
            ch = rest[j]
            if ch in "([":
                depth += 1
            elif ch in ")]":
                if depth == 0:
                    break
                depth -= 1
            elif depth == 0 and not (ch.isalnum() or ch in "_."):
                break
            j += 1
        repl.consumed = j
        return fn + "(" + rest[:j] + ")"
    out = ""
    pos = 0
    while True:
        m = _CAST_RE.search(line, pos)
        if not m:
            out += line[pos:]
            break
        out += line[pos:m.start()]
        piece = repl(m)
        out += piece
        pos = m.end() + repl.consumed
    return out


def _wrap(ctype, expr):
    if ctype == "double":
        return "_f64(%s)" % expr
    if ctype == "int":
        return "_cint(%s)" % expr
    if ctype == "double[:]":
        return "_strict(%s)" % expr
    if ctype == "double[:,:]":
        return "_mv2(%s)" % expr
    raise ShimError("unknown ctype %r" % ctype)


_FORBIDDEN = {"cdef", "cimport", "cpdef", "ctypedef", "nogil", "double", "inline",
              "xrange", "bint", "extern", "struct", "prange", "gil"}


def _check_leftovers(src, modname):
    try:
        toks = list(tokenize.generate_tokens(io.StringIO(src).readline))
    except (tokenize.TokenError, IndentationError, SyntaxError) as e:
        raise ShimError("translated %s does not tokenise: %s" % (modname, e))
    for t in toks:
        if t.type == tokenize.NAME and t.string in _FORBIDDEN:
            raise ShimError("left-over Cython construct %r in %s line %d: %r"
                            % (t.string, modname, t.start[0], t.line.strip()))
    try:
        compile(src, "<shim:%s>" % modname, "exec")
    except SyntaxError as e:
        raise ShimError("translated %s does not compile: %s (line %r)"
                        % (modname, e, e.text))


class Shim(object):
    """Builds the five kernel modules from <repo>/pyspike/cython/*.pyx."""

    def __init__(self, repo):
        self.repo = repo
        self.modules = {}
        self.sources = {}
        cdir = os.path.join(repo, "pyspike", "cython")
        for name in SHIM_MODULES:
            path = os.path.join(cdir, name + ".pyx")
            with open(path) as f:
                text = f.read()
            src = translate(text, name)
            self.sources[name] = src
            mod = types.ModuleType(PKG + name)
            mod.__file__ = path + " (shim)"
            dirs = _directives(text)
            unchecked = not dirs["boundscheck"] or not dirs["wraparound"]
            mod.__dict__.update(dict(
                _mv=_mv if unchecked else _mv_checked,
                _strict=_strict if unchecked else _strict_checked,
                _f64=_f64, _cint=_cint, _icast=_icast, _Struct=_Struct, _mv2=_mv2, fabs=fabs, fmax=fmax, fmin=fmin))
            mod.__shim_directives__ = dirs
            import math as _m
            for nm in ("sqrt", "floor", "ceil", "exp", "log", "pow", "isnan", "isinf"):
                mod.__dict__.setdefault(nm, getattr(_m, nm))
            if name != "cython_get_tau":
                mod.__dict__["get_tau"] = self.modules["cython_get_tau"].get_tau
            code = compile(src, "<shim:%s>" % name, "exec")
            try:
                exec(code, mod.__dict__)
            except Exception as e:
                raise ShimError("executing translated %s failed: %r" % (name, e))
            # `import numpy as np` ran inside: replace by the deterministic proxy
            if "np" in mod.__dict__:
                mod.__dict__["np"] = NP_PROXY
            self.modules[name] = mod
        self.installed = False

    def install(self):
        import pyspike.cython as pkg
        for name, mod in self.modules.items():
            sys.modules[PKG + name] = mod
            setattr(pkg, name, mod)
        self.installed = True

    def uninstall(self):
        import pyspike.cython as pkg
        for name in self.modules:
            sys.modules.pop(PKG + name, None)
            if hasattr(pkg, name):
                try:
                    delattr(pkg, name)
                except AttributeError:
                    pass
        self.installed = False

    def set(self, compiled):
        if compiled and not self.installed:
            self.install()
        elif not compiled and self.installed:
            self.uninstall()

    def fn(self, module, name):
        return getattr(self.modules[module], name)


class DeadShim(object):
    """Stands in when the .pyx files cannot be transliterated (an edit that uses a
    construct the shim does not know): the 'compiled' configuration is then NOT
    available; cases that ask for it run on the fallback and say so in the evidence.
    Better than losing every check over a syntax the shim lacks."""
    ok = False
    installed = False
    modules = {}

    def __init__(self, error):
        self.error = error

    def install(self):
        pass

    def uninstall(self):
        pass

    def set(self, compiled):
        pass

    def fn(self, module, name):
        raise ShimError("compiled kernels unavailable: " + self.error)


Shim.ok = True
