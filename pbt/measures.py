"""Table of the measures and small adapters used by the relational properties
(C05-C08, C13-C15, C18)."""
from fractions import Fraction as Fr

import numpy as np

from . import oracle as O

MEASURES = ["ISI", "SPIKE", "SYNC", "ORDER"]


def funcs(measure):
    import pyspike as p
    return {
        "ISI": dict(profile=p.isi_profile, dist=p.isi_distance, matrix=p.isi_distance_matrix,
                    keys=("MRTS",), kind="pwc", interval=True),
        "SPIKE": dict(profile=p.spike_profile, dist=p.spike_distance,
                      matrix=p.spike_distance_matrix, keys=("MRTS", "RI"), kind="pwl",
                      interval=True),
        "SYNC": dict(profile=p.spike_sync_profile, dist=p.spike_sync,
                     matrix=p.spike_sync_matrix, keys=("MRTS", "max_tau"), kind="disc",
                     interval=True),
        "ORDER": dict(profile=p.spike_train_order_profile, dist=p.spike_train_order,
                      matrix=None, keys=("MRTS", "max_tau"), kind="disc", interval=False),
    }[measure]


def kwargs_for(measure, case):
    keys = funcs(measure)["keys"]
    k = {}
    if "MRTS" in keys and case.get("mrts") is not None:
        k["MRTS"] = case["mrts"]
    if "RI" in keys and case.get("ri"):
        k["RI"] = True
    if "max_tau" in keys and "max_tau" in case:
        k["max_tau"] = case["max_tau"]
    return k


def profile_arrays(f):
    """JSON-able arrays of a profile object"""
    if hasattr(f, "mp"):
        return dict(x=list(map(float, f.x)), y=list(map(float, f.y)),
                    mp=list(map(float, f.mp)))
    if hasattr(f, "y1"):
        return dict(x=list(map(float, f.x)), y1=list(map(float, f.y1)),
                    y2=list(map(float, f.y2)))
    return dict(x=list(map(float, f.x)), y=list(map(float, f.y)))


def model_of(f):
    """exact model of a profile object built from its arrays"""
    if hasattr(f, "mp"):
        return O.DiscreteModel.from_arrays([float(v) for v in f.x], [float(v) for v in f.y],
                                           [float(v) for v in f.mp])
    if hasattr(f, "y1"):
        return O.PW([float(v) for v in f.x], [float(v) for v in f.y1],
                    [float(v) for v in f.y2])
    return O.PW([float(v) for v in f.x], [float(v) for v in f.y])


def intervals_list(iv):
    """None | [a,b] | [[a,b],..] -> None | [(Fr a, Fr b), ...]"""
    if iv is None:
        return None
    if isinstance(iv[0], (list, tuple)):
        return [(Fr(a), Fr(b)) for a, b in iv]
    return [(Fr(iv[0]), Fr(iv[1]))]


def model_avrg(model, iv):
    """average of a model over the interval spec (exact)"""
    ivs = intervals_list(iv)
    if isinstance(model, O.DiscreteModel):
        return model.integral(ivs)        # (sum y, sum mp)
    if ivs is None:
        return model.integral() / (model.x[-1] - model.x[0])
    tot = sum(model.integral(a, b) for a, b in ivs)
    ln = sum(b - a for a, b in ivs)
    return tot / ln


def well_formed(f, t0, t1):
    """validity predicate of C18 for a profile; returns '' or a message"""
    x = np.asarray(f.x, dtype=float)
    if len(x) < 2:
        return "time axis has %d entries" % len(x)
    if float(x[0]) != t0 or float(x[-1]) != t1:
        return "time axis runs from %r to %r, expected %r..%r" % (x[0], x[-1], t0, t1)
    if hasattr(f, "mp"):
        if not (len(f.y) == len(x) and len(f.mp) == len(x)):
            return "array lengths x/y/mp = %d/%d/%d" % (len(x), len(f.y), len(f.mp))
        if not np.all(np.diff(x) >= 0):
            return "time axis decreasing: %r" % list(x)
        if len(x) > 2 and not np.all(np.diff(x[1:-1]) > 0):
            return "event times not strictly increasing: %r" % list(x)
        vals = [f.y, f.mp]
    elif hasattr(f, "y1"):
        if not (len(f.y1) == len(x) - 1 and len(f.y2) == len(x) - 1):
            return "array lengths x/y1/y2 = %d/%d/%d" % (len(x), len(f.y1), len(f.y2))
        if not np.all(np.diff(x) > 0):
            return "time axis not strictly increasing: %r" % list(x)
        vals = [f.y1, f.y2]
    else:
        if len(f.y) != len(x) - 1:
            return "array lengths x/y = %d/%d" % (len(x), len(f.y))
        if not np.all(np.diff(x) > 0):
            return "time axis not strictly increasing: %r" % list(x)
        vals = [f.y]
    if not np.all(np.isfinite(x)):
        return "non-finite time: %r" % list(x)
    for v in vals:
        if not np.all(np.isfinite(np.asarray(v, dtype=float))):
            return "non-finite value: %r" % list(np.asarray(v, dtype=float))
    return ""
