"""Histories: a RuleBasedStateMachine whose rules are thin wrappers around an
interpreter (`mod.apply_op(state, op, ctx)`), so that the recorded list of
operations *is* the case: it is what Hypothesis shrinks, what is written to the
replay file, and what `run_case` re-executes without the library."""
import json
import time

from hypothesis.stateful import RuleBasedStateMachine

from .runner import Violation, SkipCase, CaseTimeout, note_timeout, _account, canon


class HistoryMachine(RuleBasedStateMachine):
    MOD = None
    CTX = None
    STATS = None
    DEADLINE = None
    PHASE = "machine"

    def __init__(self):
        RuleBasedStateMachine.__init__(self)
        self.ops = []
        self.state = self.MOD.new_state()
        self.dead = False
        self.CTX.shim.set(False)

    FAILED = [False]

    def do(self, op):
        if self.dead:
            return
        if getattr(self.CTX, "timeouts", 0) >= 2:
            self.dead = True
            self.STATS.budget_skipped += 1
            return
        if time.time() > self.DEADLINE and not self.FAILED[0]:
            # (after a failure the budget no longer applies: a wall-clock limit
            # must never turn the replay of a failing history into a pass)
            self.dead = True
            self.STATS.budget_skipped += 1
            return
        self.ops.append(op)
        case = {"kind": "history", "ops": self.ops}
        self.CTX.case = case
        try:
            self.MOD.apply_op(self.state, op, self.CTX)
        except SkipCase:
            self.dead = True
            self.STATS.skipped += 1
        except CaseTimeout:
            self.dead = True
            note_timeout(self.CTX, self.STATS)
        except Violation as v:
            v.case = json.loads(canon(case))
            self.FAILED[0] = True
            raise

    def teardown(self):
        self.CTX.shim.set(False)
        if self.ops:
            _account(self.MOD, self.STATS, {"kind": "history", "ops": self.ops}, self.PHASE)


def replay_history(mod, case, ctx):
    state = mod.new_state()
    ctx.shim.set(False)
    for op in case["ops"]:
        mod.apply_op(state, op, ctx)


def bind(machine_cls, mod, ctx, stats, deadline, phase):
    return type(machine_cls.__name__, (machine_cls,),
                dict(MOD=mod, CTX=ctx, STATS=stats, DEADLINE=deadline, PHASE=phase,
                     FAILED=[False]))
