"""Small helpers shared by the property modules."""
from fractions import Fraction as Fr

import numpy as np

from . import oracle as O

TOL_DYADIC = 1e-12
TOL_FLOAT = 1e-9


def trains(case):
    import pyspike
    from .env import HarnessError
    t0, t1 = case["t0"], case["t1"]
    if not t0 < t1:
        raise HarnessError("generator produced an empty recording [%r, %r]" % (t0, t1))
    for tr in case["trains"]:
        if any(not (t0 <= s <= t1) for s in tr) or any(a >= b for a, b in zip(tr, tr[1:])):
            raise HarnessError("generator produced an invalid spike train %r on [%r, %r]"
                               % (tr, t0, t1))
    if case.get("int_times"):
        # the caller writes whole-number times as Python ints / an integer array
        out = []
        for k, tr in enumerate(case["trains"]):
            if tr and all(float(s).is_integer() for s in tr):
                arg = [int(s) for s in tr] if k % 2 == 0 else np.array([int(s) for s in tr])
            else:
                arg = np.array(tr, dtype=float)
            out.append(pyspike.SpikeTrain(arg, [case["t0"], case["t1"]]))
        return out
    if case.get("ctor") in ("unsorted", "unsorted_copy"):
        out = []
        for k, tr in enumerate(case["trains"]):
            arr = np.array(tr[::-1] if k % 2 == 0 else tr[1:] + tr[:1], dtype=float)
            s_ = pyspike.SpikeTrain(arr, [case["t0"], case["t1"]], is_sorted=False)
            out.append(s_.copy() if case["ctor"] == "unsorted_copy" else s_)
    else:
        out = [pyspike.SpikeTrain(np.array(tr, dtype=float), [case["t0"], case["t1"]])
               for tr in case["trains"]]
    if case.get("alias_equal"):
        # equal trains are ONE object sitting at several positions of the list
        for a in range(len(out)):
            for b in range(a):
                if case["trains"][a] == case["trains"][b]:
                    out[a] = out[b]
                    break
    return out


def prime(ctx, case, sts, fns, pair_only=()):
    """case["prime"]: before the trains are judged, the caller has already used them
    in other (in-contract) calls - together with a train from a LONGER recording
    ("wider": default reconciliation then works on common edges), or with a third
    train of the same recording ("same").  The results of these calls are not judged
    here; what matters is that the objects come out of them unchanged, so that the
    judged calls see exactly the trains the case describes."""
    how = case.get("prime")
    if not how:
        return
    import pyspike
    t0, t1 = float(case["t0"]), float(case["t1"])
    L = t1 - t0
    if how == "wider":
        other = pyspike.SpikeTrain(np.array([t0 - 0.5 * L, t0 + 0.5 * L, t1 + 0.5 * L]),
                                   [t0 - L, t1 + L])
    else:
        other = pyspike.SpikeTrain(np.array([t0 + 0.25 * L, t0 + 0.5 * L]), [t0, t1])
    for fn in fns:
        ctx.call("priming_call", fn, sts[0], other)
        ctx.call("priming_call", fn, other, sts[-1])
        ctx.call("priming_call", fn, list(sts) + [other])
    for fn in pair_only:
        ctx.call("priming_call", fn, sts[0], other)
        ctx.call("priming_call", fn, other, sts[-1])
    ctx.notes["primed:" + how] += 1


def reedit(case, sts):
    """case["reuse"]: the caller keeps the SpikeTrain objects of a first round of calls,
    edits them IN PLACE (they stay valid) and calls again.  Mutates `sts`, returns the case
    that describes the objects now (None: no such edit possible for this case).
    'elem': the last spike of the first non-empty train is moved (st.spikes[-1] = t);
    'shift': all its spikes are shifted (st.spikes += d); 'edges': every train's t_end is
    moved out by half a recording length (st.t_end = ...)."""
    import copy as _copy
    kind = case.get("reuse")
    if not kind or case.get("int_times"):
        return None
    c2 = _copy.deepcopy(case)
    for key in ("reuse", "prime", "ctor"):
        c2.pop(key, None)
    t0, t1 = float(case["t0"]), float(case["t1"])
    if kind == "edges":
        new_t1 = t1 + (t1 - t0) / 2
        for s_ in sts:
            s_.t_end = new_t1
        c2["t1"] = new_t1
        return c2
    k = next((j for j, tr in enumerate(case["trains"]) if tr), None)
    if k is None or not isinstance(sts[k].spikes, np.ndarray) or sts[k].spikes.dtype != float:
        return None
    tr = [float(v) for v in case["trains"][k]]
    if kind == "shift":
        if tr[-1] < t1:
            d = (t1 - tr[-1]) / 2
        elif tr[0] > t0:
            d = -(tr[0] - t0) / 2
        else:
            kind = "elem"
    if kind == "shift":
        new = [v + d for v in tr]
    else:
        prev = tr[-2] if len(tr) > 1 else t0
        cand = (prev + t1) / 2
        if cand == tr[-1]:
            cand = (prev + tr[-1]) / 2
        new = tr[:-1] + [cand]
    if not (all(a < b for a, b in zip(new, new[1:])) and t0 <= new[0] and new[-1] <= t1
            and new != tr):
        return None
    if kind == "shift":
        sts[k].spikes += d
    else:
        sts[k].spikes[-1] = new[-1]
    if [float(v) for v in sts[k].spikes] != new:
        from .env import HarnessError
        raise HarnessError("in-place edit of a SpikeTrain did not take: %r vs %r"
                           % (list(sts[k].spikes), new))
    for j in range(len(sts)):
        if sts[j] is sts[k]:
            c2["trains"][j] = list(new)
    return c2


def judge_twice(case, ctx, sts, judge):
    """judge(case, ctx, sts); then, if the case asks for it, the in-place edit and a
    second judgement of the same objects (labels prefixed with after_in_place_edit:)"""
    judge(case, ctx, sts)
    c2 = reedit(case, sts)
    if c2 is None:
        return
    ctx.notes["rejudged_after_in_place_edit:" + case["reuse"]] += 1
    orig = ctx.fail

    def fail(label, detail=""):
        d = detail() if callable(detail) else detail
        return orig("after_in_place_edit:" + label,
                    "[same objects after in-place edit '%s'; they now are %r on [%r, %r]] %s"
                    % (case["reuse"], c2["trains"], c2["t0"], c2["t1"], d))
    ctx.fail = fail
    try:
        judge(c2, ctx, sts)
    finally:
        del ctx.fail


def fr_trains(case):
    return ([[Fr(t) for t in tr] for tr in case["trains"]],
            Fr(case["t0"]), Fr(case["t1"]))


def tol_of(case):
    """Dyadic domain: every intermediate is exact or nearly so -> 1e-12.  Float
    domain: 1e-9, widened by the conditioning of the input: the kernels form
    auxiliary spike positions such as 2*t[0]-t[1], which round by up to one ulp of
    the time scale, and an inter-spike (or spike-to-edge) interval g inherits the
    relative error ulp(scale)/g.  The statement is about real numbers; a result
    that differs from the exact one by a few such roundings is not a violation."""
    if case.get("domain") != "float":
        return TOL_DYADIC
    t0, t1 = float(case["t0"]), float(case["t1"])
    scale = max(abs(t0), abs(t1))
    gap = t1 - t0
    for tr in case.get("trains", []):
        pts = [t0] + [float(t) for t in tr] + [t1]
        for a, b in zip(pts, pts[1:]):
            if 0 < b - a < gap:
                gap = b - a
    return max(TOL_FLOAT, 32 * 2.220446049250313e-16 * scale / gap)


def close(a, b, tol):
    """a: float from the code, b: Fraction/float reference"""
    a = float(a)
    b = float(b)
    if a != a or b != b:
        return False
    if a in (float("inf"), float("-inf")) or b in (float("inf"), float("-inf")):
        return a == b
    return abs(a - b) <= tol * max(1.0, abs(b))


def all_close(xs, ys, tol):
    if len(xs) != len(ys):
        return False
    return all(close(a, b, tol) for a, b in zip(xs, ys))


def first_diff(xs, ys, tol):
    if len(xs) != len(ys):
        return "lengths %d vs %d" % (len(xs), len(ys))
    for k, (a, b) in enumerate(zip(xs, ys)):
        if not close(a, b, tol):
            return "index %d: got %r expected %r" % (k, float(a), float(b))
    return ""


def exact_eq(xs, ys):
    """float array from the code vs list of Fractions: exact equality"""
    if len(xs) != len(ys):
        return False
    for a, b in zip(xs, ys):
        a = float(a)
        if a != a or a in (float("inf"), float("-inf")):
            return False
        if Fr(a) != b:
            return False
    return True


def fl(xs):
    return [float(x) for x in xs]


def kw(case, keys=("MRTS", "RI", "max_tau")):
    """keyword dict from a case: entries that are None/absent are omitted"""
    k = {}
    m = case.get("mrts")
    if "MRTS" in keys and m is not None:
        k["MRTS"] = m
        t = case.get("mrts_type")
        if t and not isinstance(m, str):
            # the same number carried by another numeric type
            if t == "int" and float(m).is_integer():
                k["MRTS"] = int(m)
            elif t == "np.int64" and float(m).is_integer():
                k["MRTS"] = np.int64(int(m))
            elif t == "np.float32" and float(np.float32(m)) == float(m):
                k["MRTS"] = np.float32(m)
            elif t == "np.float64":
                k["MRTS"] = np.float64(m)
    if "RI" in keys and case.get("ri"):
        k["RI"] = True
    if "max_tau" in keys and "max_tau" in case and case["max_tau"] != "omit":
        k["max_tau"] = case["max_tau"]
    return k


def is_finite(v):
    try:
        return bool(np.all(np.isfinite(np.asarray(v, dtype=float))))
    except (TypeError, ValueError):
        return False


# classification helpers on float cases ------------------------------------
def train_kinds(case):
    t0, t1 = case["t0"], case["t1"]
    labels = set()
    trs = case["trains"]
    for tr in trs:
        if len(tr) == 0:
            labels.add("empty_train")
        elif len(tr) == 1:
            labels.add("one_spike_train")
        if tr and tr[0] == t0:
            labels.add("spike_on_t_start")
        if tr and tr[-1] == t1:
            labels.add("spike_on_t_end")
    for a in range(len(trs)):
        for b in range(a + 1, len(trs)):
            sh = set(trs[a]) & set(trs[b])
            if sh:
                labels.add("shared_spike")
                if any(t0 < s < t1 for s in sh):
                    labels.add("shared_interior_spike")
            if trs[a] == trs[b] and trs[a]:
                labels.add("identical_trains")
    return labels


def mrts_exact(case, pool=None):
    """the MRTS of a case as an exact number: Fraction, or - for 'auto' - the
    exact root mean square of the pooled ISI lengths of the trains with the
    given indices (default: all trains of the case)"""
    m = case.get("mrts")
    if m == "auto":
        trs, T0, T1 = fr_trains(case)
        if pool is not None:
            trs = [trs[k] for k in pool]
        return O.default_thresh_exact(trs, T0, T1)
    return Fr(m or 0)


def sibling_wider_edges(case, w=1.0):
    """the same spike times on a wider recording"""
    c = dict(case)
    c["t0"] = case["t0"] - w
    c["t1"] = case["t1"] + w
    return c


def sibling_same_count_and_sum(case, k=0):
    """train k with two spikes moved towards each other by the same amount: same
    number of spikes, same sum of spike times, other spike times (None if the
    train has no two spikes that can be moved)"""
    tr = list(case["trains"][k])
    if len(tr) < 3:
        return None
    i, j = 0, len(tr) - 1
    u = min(tr[i + 1] - tr[i], tr[j] - tr[j - 1]) / 4.0
    if not u > 0:
        return None
    new = list(tr)
    new[i] = tr[i] + u
    new[j] = tr[j] - u
    if sorted(set(new)) != new or new == tr:
        return None
    c = dict(case)
    c["trains"] = [list(t) for t in case["trains"]]
    c["trains"][k] = new
    return c


def edit_in_place(st):
    """the caller edits a train it already passed to the library: drop the last
    spike (or put one in the middle of an empty train); returns the new times"""
    if len(st.spikes) > 0:
        new = np.array(st.spikes[:-1], dtype=float)
    else:
        new = np.array([(st.t_start + st.t_end) / 2.0])
    st.spikes = new
    return [float(v) for v in new]
