"""Process environment for the checks: locate the repository under test, make
sure its pyspike (and not another copy) is imported, silence repository output,
build the .pyx shim, make np.empty deterministic in the Python kernels."""
import contextlib
import hashlib
import io
import os
import sys
import warnings

VERIF_DIR = os.path.dirname(os.path.dirname(os.path.abspath(__file__)))
REPO = os.path.abspath(os.environ.get("VERIF_REPO", "/repo"))
WHEELS = "/opt/veriftools/wheels"

_state = {}


class HarnessError(Exception):
    """Something in the machinery (not in PySpike) is broken: exit code 2."""


def ensure_hypothesis():
    try:
        import hypothesis  # noqa: F401
        return
    except ImportError:
        pass
    import subprocess
    tgt = os.path.join(VERIF_DIR, ".deps")
    subprocess.check_call([sys.executable, "-m", "pip", "install", "--quiet",
                           "--no-index", "--find-links", WHEELS,
                           "--target", tgt, "hypothesis"])
    sys.path.insert(1, tgt)
    import hypothesis  # noqa: F401


def setup():
    """Idempotent. Returns the Shim object."""
    if "shim" in _state:
        return _state["shim"]
    if not os.path.isdir(os.path.join(REPO, "pyspike")):
        raise HarnessError("no pyspike package under %s" % REPO)
    sys.path.insert(0, REPO)
    deps = os.path.join(VERIF_DIR, ".deps")
    if os.path.isdir(deps):
        sys.path.insert(1, deps)
    warnings.simplefilter("ignore")
    import numpy as np
    np.seterr(all="ignore")
    ensure_hypothesis()
    with quiet():
        import pyspike
    here = os.path.abspath(pyspike.__file__)
    if not here.startswith(REPO + os.sep):
        raise HarnessError("imported pyspike from %s, expected under %s" % (here, REPO))
    pyspike.disable_backend_warning = True
    from . import pyxshim
    try:
        shim = pyxshim.Shim(REPO)
    except pyxshim.ShimError as e:
        print("WARNING: the .pyx kernels could not be transliterated (%s); the 'compiled' "
              "configuration is unavailable, its cases run on the pure-Python fallback" % e)
        shim = pyxshim.DeadShim(str(e))
    # deterministic np.empty for the pure-Python kernels as well
    import pyspike.cython.python_backend as pb
    pb.np = pyxshim.NP_PROXY
    _state["shim"] = shim
    return shim


@contextlib.contextmanager
def quiet():
    """PySpike prints (NoCythonWarn, debug prints in PieceWiseLinFunc.integral);
    nothing it prints may reach our stdout, where VIOLATION lines live."""
    buf = io.StringIO()
    with contextlib.redirect_stdout(buf):
        yield buf


def derive_seed(*parts):
    h = hashlib.sha256("/".join(str(p) for p in parts).encode()).digest()
    return int.from_bytes(h[:8], "big")


def base_seed():
    try:
        return int(os.environ.get("VERIF_SEED", "1"))
    except ValueError:
        return 1
