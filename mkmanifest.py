#!/usr/bin/env python3
"""Regenerates MANIFEST.json from the property modules present in pbt/props."""
import json, os, re
HERE = os.path.dirname(os.path.abspath(__file__))
props = [json.loads(l) for l in open(os.path.join(HERE, "properties.jsonl"))]
META = json.load(open(os.path.join(HERE, "manifest_meta.json")))
checks = []
na = []
for p in props:
    pid = p["id"]
    if not os.path.exists(os.path.join(HERE, "pbt", "props", pid.lower() + ".py")) or pid in META.get("not_applicable", {}):
        na.append(dict(property_id=pid, reason=META.get("not_applicable", {}).get(pid, "check not built yet")))
        continue
    m = META["checks"].get(pid, {})
    checks.append(dict(
        property_id=pid,
        quick_cmd="./vcheck %s --tier quick" % pid,
        thorough_cmd="./vcheck %s --tier thorough" % pid,
        evidence_file="evidence/%s.json" % pid,
        replay_cmd_template="./vcheck %s --replay {path}" % pid,
        engine="pbt",
        level_claimed=dict(category="exploration",
                           text=m.get("text", META["default_text"]),
                           design_ref=m.get("design_ref", "DESIGN.md section 5, " + pid)),
        level_note=m.get("note", META["default_note"]),
        technique=m.get("technique", META["default_technique"]),
    ))
man = dict(
    version=1,
    setup_cmd=META["setup_cmd"],
    hooks=META["hooks"],
    engines=[dict(name="pbt", path="pbt/", serves_properties=[c["property_id"] for c in checks],
                  kind_free_text=META["engine_text"])],
    checks=checks,
    notes=META["notes"],
    not_applicable=na,
)
json.dump(man, open(os.path.join(HERE, "MANIFEST.json"), "w"), indent=1)
print("MANIFEST.json: %d checks, %d not_applicable" % (len(checks), len(na)))
